// C20: difficulty compact encoding round-trips and orders work.
package main

import (
	"encoding/json"
	"fmt"
	"time"
	"math/big"
	"runtime"
	"sync"

	"github.com/33cn/chain33/common/difficulty"
	"verifharness/lib"
)

var (
	b256   = big.NewInt(256)
	two256 = new(big.Int).Exp(big.NewInt(2), big.NewInt(256), nil)
)

var powTab = func() []*big.Int {
	t := make([]*big.Int, 300)
	t[0] = big.NewInt(1)
	for i := 1; i < len(t); i++ {
		t[i] = new(big.Int).Mul(t[i-1], b256)
	}
	return t
}()

func pow256(k int) *big.Int { return powTab[k] }

// refDecode: value = sign * floor(mantissa * 256^(e-3)) using multiplication/division only.
func refDecode(c uint32) *big.Int {
	m := big.NewInt(int64(c & 0x007fffff))
	e := int(c >> 24)
	v := new(big.Int)
	if e >= 3 {
		v.Mul(m, pow256(e-3))
	} else {
		v.Quo(m, pow256(3-e))
	}
	if c&0x00800000 != 0 {
		v.Neg(v)
	}
	return v
}

// refEncode: canonical compact form of n, by division (no shifts, no Bits()).
func refEncode(n *big.Int) uint32 {
	if n.Sign() == 0 {
		return 0
	}
	a := new(big.Int).Abs(n)
	size := (a.BitLen() + 7) / 8 // number of base-256 digits
	var m *big.Int
	if size <= 3 {
		m = new(big.Int).Mul(a, pow256(3-size))
	} else {
		m = new(big.Int).Quo(a, pow256(size-3))
	}
	mm := uint32(m.Uint64())
	if mm >= 0x00800000 {
		mm /= 256
		size++
	}
	c := uint32(size)<<24 | mm
	if n.Sign() < 0 {
		c |= 0x00800000
	}
	return c
}

type res struct {
	n       int64
	strata  map[uint32]struct{}
	noncan  int64
	bad     []string
	badC    []uint32
}

func checkCompact(c uint32, r *res) {
	r.n++
	d := difficulty.CompactToBig(c)
	rd := refDecode(c)
	if d.Cmp(rd) != 0 {
		r.fail(c, fmt.Sprintf("CompactToBig(%#08x)=%s, reference %s", c, d.String(), rd.String()))
		return
	}
	canon := difficulty.BigToCompact(d)
	if want := refEncode(rd); canon != want {
		r.fail(c, fmt.Sprintf("BigToCompact(CompactToBig(%#08x))=%#08x, canonical form is %#08x", c, canon, want))
		return
	}
	// canonical form decodes to the same number and is a fixed point
	d2 := difficulty.CompactToBig(canon)
	if d2.Cmp(d) != 0 {
		r.fail(c, fmt.Sprintf("canonical %#08x of %#08x decodes to %s, original decodes to %s", canon, c, d2, d))
		return
	}
	if c2 := difficulty.BigToCompact(d2); c2 != canon {
		r.fail(c, fmt.Sprintf("canonical form not a fixed point: %#08x -> %#08x", canon, c2))
		return
	}
	if canon != c {
		r.noncan++
	}
	// work: 0 for non-positive targets, else floor(2^256/(t+1)); in the exhaustive tier the (expensive) exact work value is
	// compared for every workStride-th compact value, the monotonicity sweep below covers every canonical target
	if workStride > 1 && c%workStride != 0 {
		r.stratum(c, d, canon)
		return
	}
	w := difficulty.CalcWork(c)
	if rd.Sign() <= 0 {
		if w.Sign() != 0 {
			r.fail(c, fmt.Sprintf("CalcWork(%#08x)=%s for non-positive target", c, w))
		}
	} else {
		want := new(big.Int).Quo(two256, new(big.Int).Add(rd, big.NewInt(1)))
		if w.Cmp(want) != 0 {
			r.fail(c, fmt.Sprintf("CalcWork(%#08x)=%s want %s", c, w, want))
		}
	}
	r.stratum(c, d, canon)
}

var workStride uint32 = 1

func (r *res) stratum(c uint32, d *big.Int, canon uint32) {
	if d.Sign() != 0 {
		k := (c >> 24) << 2
		if c&0x00800000 != 0 {
			k |= 1
		}
		if canon != c {
			k |= 2
		}
		r.strata[k] = struct{}{}
	}
}

func (r *res) fail(c uint32, s string) {
	if len(r.bad) < 5 {
		r.bad = append(r.bad, s)
		r.badC = append(r.badC, c)
	}
}

// checkInt: for a non-negative integer, decode(encode(n)) only loses precision beyond the mantissa.
func checkInt(n *big.Int) string {
	c := difficulty.BigToCompact(n)
	if want := refEncode(n); c != want {
		return fmt.Sprintf("BigToCompact(%s)=%#08x want %#08x", n, c, want)
	}
	d := difficulty.CompactToBig(c)
	e := int(c >> 24)
	k := e - 3
	if k < 0 {
		k = 0
	}
	p := pow256(k)
	want := new(big.Int).Mul(new(big.Int).Quo(n, p), p)
	if d.Cmp(want) != 0 {
		return fmt.Sprintf("CompactToBig(BigToCompact(%s))=%s, want %s (only bytes below the mantissa dropped)", n, d, want)
	}
	if d.Cmp(n) > 0 {
		return fmt.Sprintf("decode(encode(%s))=%s exceeds the input", n, d)
	}
	return ""
}

func run(c *lib.Ctx) {
	c.Rule("every compact value explored is pushed through the real CompactToBig/BigToCompact/CalcWork and compared with an independent division-based reference; " +
		"distinct_nontrivial = distinct (exponent, sign, non-canonical?) strata with non-zero decoded value; thorough enumerates all 2^32 compact values; " +
		"integers of every byte length 1..40 with boundary mantissas; work monotonicity over adjacent canonical targets and sorted random targets")
	c.Assume("math/big multiplication/division is trusted as the reference arithmetic")
	workers := runtime.NumCPU()
	var mu sync.Mutex
	merge := func(r *res) {
		mu.Lock()
		defer mu.Unlock()
		c.Count("compact_values", r.n)
		c.Count("non_canonical_inputs", r.noncan)
		for k := range r.strata {
			c.Seen("strata", fmt.Sprint(k))
		}
		for i, s := range r.bad {
			c.Violation(int(r.badC[i]), "compact", map[string]any{"compact": r.badC[i]}, "%s", s)
		}
	}
	if c.Replay != "" {
		r := &res{strata: map[uint32]struct{}{}}
		checkCompact(uint32(c.OnlyIdx), r)
		merge(r)
	} else if c.Quick() {
		// stratified: every exponent x sign x (boundary mantissas + 2048 random)
		lib.Parallel(256, workers, func(e int) {
			r := &res{strata: map[uint32]struct{}{}}
			rng := c.CaseRng("compact", e)
			for sign := uint32(0); sign < 2; sign++ {
				ms := []uint32{0, 1, 2, 0xff, 0x100, 0x101, 0xffff, 0x10000, 0x10001, 0x7f, 0x80, 0x7fff, 0x8000, 0x7fffff, 0x7ffffe, 0x400000, 0x3fffff, 0x008000, 0x00ffff, 0x010000}
				for i := 0; i < 2028; i++ {
					ms = append(ms, uint32(rng.U64())&0x7fffff)
				}
				for _, m := range ms {
					checkCompact(uint32(e)<<24|sign<<23|m, r)
				}
			}
			merge(r)
		})
	} else {
		// all 2^32 values, split over child processes (separate heaps: the work is allocation-bound and one shared
		// garbage collector does not scale over 16 goroutines)
		c.Exhaustive(true)
		parts := 64
		lib.Parallel(parts, workers, func(pi int) {
			cr := c.Child("range", rangeReq{From: pi * (4096 / parts), To: (pi + 1) * (4096 / parts)}, lib.ChildOpts{Timeout: 3 * time.Hour, Env: []string{"GOMAXPROCS=1", "GOGC=400"}})
			var rr rangeRes
			if cr.TimedOut || cr.Died || json.Unmarshal(cr.Out, &rr) != nil {
				c.Inconclusive("range child %d failed: %.300s", pi, cr.Stderr)
				return
			}
			r := &res{strata: map[uint32]struct{}{}, n: rr.N, noncan: rr.Noncan, bad: rr.Bad, badC: rr.BadC}
			for _, k := range rr.Strata {
				r.strata[k] = struct{}{}
			}
			merge(r)
		})
	}
	// integers of every byte length
	if c.Replay == "" {
		rng := c.CaseRng("ints", 0)
		nInts := c.N(200, 20000)
		cnt := 0
		for L := 1; L <= 40; L++ {
			var cands []*big.Int
			for _, top := range []byte{0x01, 0x7f, 0x80, 0xff} {
				for _, fill := range []byte{0x00, 0xff, 0x80, 0x7f} {
					b := make([]byte, L)
					for i := range b {
						b[i] = fill
					}
					b[0] = top
					cands = append(cands, new(big.Int).SetBytes(b))
				}
			}
			for i := 0; i < nInts; i++ {
				b := rng.Bytes(L)
				if b[0] == 0 {
					b[0] = 1
				}
				if rng.Chance(30) && L > 3 { // boundary mantissa
					b[0] = lib.Pick(rng, []byte{0x7f, 0x80, 0xff, 0x01})
					b[1] = lib.Pick(rng, []byte{0xff, 0x00, b[1]})
					b[2] = lib.Pick(rng, []byte{0xff, 0x00, b[2]})
				}
				cands = append(cands, new(big.Int).SetBytes(b))
			}
			for _, n := range cands {
				cnt++
				if s := checkInt(n); s != "" {
					c.Violation(-1, "int", map[string]any{"int": n.String()}, "%s", s)
				}
			}
		}
		if s := checkInt(big.NewInt(0)); s != "" {
			c.Violation(-1, "int", map[string]any{"int": "0"}, "%s", s)
		}
		c.Count("integers", int64(cnt))
		// monotonicity (1): adjacent canonical positive compacts (ascending uint32 order == ascending target)
		adj := 0
		var prevT, prevW *big.Int
		step := uint32(1)
		check := func(cv uint32) {
			t := difficulty.CompactToBig(cv)
			if t.Sign() <= 0 || difficulty.BigToCompact(t) != cv {
				return
			}
			w := difficulty.CalcWork(cv)
			if prevT != nil {
				adj++
				if t.Cmp(prevT) <= 0 {
					c.Violation(int(cv), "mono-target", map[string]any{"compact": cv}, "canonical compact order disagrees with target order at %#08x", cv)
				}
				if w.Cmp(prevW) > 0 {
					c.Violation(int(cv), "mono-work", map[string]any{"compact": cv}, "CalcWork increases with target at %#08x: %s > %s", cv, w, prevW)
				}
			}
			prevT, prevW = t, w
		}
		if c.Quick() {
			// all exponents 1..34 (work reaches zero beyond), mantissas near boundaries + strided
			for e := uint32(1); e <= 36; e++ {
				prevT, prevW = nil, nil
				for m := uint32(0); m < 0x800000; m += step {
					check(e<<24 | m)
					if m > 0x200 && m < 0x7ffe00 {
						m += uint32(rng.Intn(4096))
					}
				}
			}
		} else {
			// every canonical positive target, exponent by exponent in parallel; the pairs across exponent boundaries afterwards
			var amu sync.Mutex
			lib.Parallel(40, workers, func(k int) {
				e := uint32(k + 1)
				var pT, pW *big.Int
				n := 0
				for m := uint32(0); m < 0x800000; m++ {
					cv := e<<24 | m
					t := difficulty.CompactToBig(cv)
					if t.Sign() <= 0 || difficulty.BigToCompact(t) != cv {
						continue
					}
					w := difficulty.CalcWork(cv)
					if pT != nil {
						n++
						if t.Cmp(pT) <= 0 {
							c.Violation(int(cv), "mono-target", map[string]any{"compact": cv}, "canonical compact order disagrees with target order at %#08x", cv)
						}
						if w.Cmp(pW) > 0 {
							c.Violation(int(cv), "mono-work", map[string]any{"compact": cv}, "CalcWork increases with target at %#08x: %s > %s", cv, w, pW)
						}
					}
					pT, pW = t, w
				}
				amu.Lock()
				adj += n
				amu.Unlock()
			})
			for e := uint32(2); e <= 40; e++ {
				prevT, prevW = nil, nil
				check((e-1)<<24 | 0x7fffff)
				check(e<<24 | 0x008000)
			}
		}
		c.Count("adjacent_canonical_pairs", int64(adj))
		// monotonicity (2): random pairs of compacts with positive targets
		pairs := c.N(200000, 5000000)
		for i := 0; i < pairs; i++ {
			a := uint32(rng.U64())&0x007fffff | uint32(rng.Intn(40))<<24
			b := uint32(rng.U64())&0x007fffff | uint32(rng.Intn(40))<<24
			if rng.Chance(50) {
				b = a&0xff000000 | (a+uint32(rng.Intn(3)))&0x7fffff
			}
			ta, tb := refDecode(a), refDecode(b)
			if ta.Sign() <= 0 || tb.Sign() <= 0 {
				continue
			}
			wa, wb := difficulty.CalcWork(a), difficulty.CalcWork(b)
			cmpT, cmpW := ta.Cmp(tb), wa.Cmp(wb)
			if (cmpT < 0 && cmpW < 0) || (cmpT > 0 && cmpW > 0) || (cmpT == 0 && cmpW != 0) {
				c.Violation(int(a), "mono-pair", map[string]any{"a": a, "b": b}, "work order disagrees with target order: %#08x (t=%s,w=%s) vs %#08x (t=%s,w=%s)", a, ta, wa, b, tb, wb)
			}
			c.Count("work_pairs", 1)
		}
	}
	n := c.Counter("compact_values")
	for i := 0; i < int(n) && i < 1; i++ {
	}
	// evaluations / distinct: one Case per stratum, measured
	c.Sample(map[string]any{"compact": "0x1d00ffff", "decoded": difficulty.CompactToBig(0x1d00ffff).String(), "canonical": fmt.Sprintf("%#08x", difficulty.BigToCompact(difficulty.CompactToBig(0x1d00ffff)))})
	c.Sample(map[string]any{"compact": "0x05800012", "decoded": difficulty.CompactToBig(0x05800012).String(), "canonical": fmt.Sprintf("%#08x", difficulty.BigToCompact(difficulty.CompactToBig(0x05800012)))})
	c.Bulk(int(n)+int(c.Counter("integers"))+int(c.Counter("work_pairs")), "strata")
	c.RequireEvents("compact_values", 1000)
}

type rangeReq struct {
	From int `json:"from"` // chunks of 2^20 compact values
	To   int `json:"to"`
}

type rangeRes struct {
	N      int64    `json:"n"`
	Noncan int64    `json:"noncan"`
	Strata []uint32 `json:"strata"`
	Bad    []string `json:"bad"`
	BadC   []uint32 `json:"bad_c"`
}

func init() {
	lib.RegisterChild("range", func(in []byte) (any, error) {
		var q rangeReq
		if err := json.Unmarshal(in, &q); err != nil {
			return nil, err
		}
		r := &res{strata: map[uint32]struct{}{}}
		workStride = 16
		for chunk := q.From; chunk < q.To; chunk++ {
			base := uint64(chunk) << 20
			for i := uint64(0); i < 1<<20; i++ {
				checkCompact(uint32(base+i), r)
			}
		}
		out := rangeRes{N: r.n, Noncan: r.noncan, Bad: r.bad, BadC: r.badC}
		for k := range r.strata {
			out.Strata = append(out.Strata, k)
		}
		return out, nil
	})
}

func main() { lib.Main("C20", "exploration", run) }
