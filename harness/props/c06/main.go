// C06: key-value backends (memdb, goleveldb, badger) agree with an ordered-map model.
//
// Every case is a generated program of point writes, deletes, batches, reads and iterator queries.
// The program is executed in lock-step on a sorted-map model and on the real backends (fresh DB per
// case, in child processes); every Get and every iterator observation (return value of
// Rewind/Seek/Next, Valid, Key, Value, ValueCopy) is compared with the model.
package main

import (
	"bytes"
	"encoding/json"
	"fmt"
	"os"
	"path/filepath"
	"runtime/debug"
	"sort"
	"strings"
	"sync"
	"time"

	dbm "github.com/33cn/chain33/common/db"
	"github.com/33cn/chain33/common/log/log15"
	"github.com/33cn/chain33/types"
	"verifharness/lib"
)

const (
	beMem    = "memdb"
	beLevel  = "goleveldb"
	beBadger = "gobadgerdb"
)

// ---------------------------------------------------------------------------------------------
// program

type Step struct {
	K string `json:"k"` // R rewind, S seek, N next, A next-until-exhausted
	T []byte `json:"t,omitempty"`
}

type IterSpec struct {
	Start   []byte `json:"start"`
	End     []byte `json:"end"`
	EndMode string `json:"mode"` // prefix (end=nil), range (explicit end), open (end=types.EmptyValue)
	Rev     bool   `json:"rev"`
	Script  []Step `json:"script"`
}

type BOp struct {
	Del   bool   `json:"del,omitempty"`
	K     []byte `json:"k"`
	V     []byte `json:"v"`
	VNil  bool   `json:"vnil,omitempty"`
	Reset bool   `json:"reset,omitempty"` // Write()+Reset() before this entry (batch reuse)
}

type Op struct {
	Kind  string    `json:"kind"` // set setsync del delsync batch get iter flush
	K     []byte    `json:"k,omitempty"`
	V     []byte    `json:"v,omitempty"`
	VNil  bool      `json:"vnil,omitempty"`
	Sync  bool      `json:"sync,omitempty"`
	Batch []BOp     `json:"batch,omitempty"`
	It    *IterSpec `json:"it,omitempty"`
}

type Program struct {
	Mode int  `json:"mode"`
	FF   bool `json:"ff"` // alphabet contains 0xff => badger is not run
	Ops  []Op `json:"ops"`
}

var stemsFF = []string{"k", "k/", "k/1", "k/2", "k0", "l", "k/1/x", "k\xff", "k/\xff", "\xff", "\xff\xff", "j\xff\xff", "k\xfe", "j"}
var stemsClean = []string{"k", "k/", "k/1", "k/2", "k0", "l", "k/1/x", "k/~", "j~", "j", "k/0", "k1"}

func randKey(r *lib.Rng, mode int) []byte {
	switch mode {
	case 0:
		n := r.Range(1, 4)
		b := make([]byte, n)
		for i := range b {
			b[i] = lib.Pick(r, []byte{'a', 'b'})
		}
		return b
	case 1:
		n := r.Range(1, 3)
		b := make([]byte, n)
		for i := range b {
			b[i] = lib.Pick(r, []byte{0x00, 0x01, 0xfe, 0xff})
		}
		return b
	case 2:
		return []byte(lib.Pick(r, stemsFF) + lib.Pick(r, []string{"", "", "0", "\xff", "/"}))
	case 3:
		n := r.Range(1, 3)
		b := make([]byte, n)
		for i := range b {
			b[i] = lib.Pick(r, []byte{0x00, 0x01, 0x7f, 0xfe})
		}
		return b
	default:
		return []byte(lib.Pick(r, stemsClean) + lib.Pick(r, []string{"", "", "0", "~", "/"}))
	}
}

func randVal(r *lib.Rng, tag string) ([]byte, bool) {
	if r.Chance(15) {
		if r.Bool() {
			return nil, true
		}
		return []byte{}, false
	}
	return []byte("v" + tag), false
}

// a bound / seek target: a key, a proper prefix of a key, or a key with one more byte
func randBound(r *lib.Rng, mode int) []byte {
	k := randKey(r, mode)
	switch r.Intn(6) {
	case 0:
		if len(k) > 1 {
			return k[:len(k)-1]
		}
	case 1:
		return append(k, randKey(r, mode)[0])
	}
	return k
}

func genIter(r *lib.Rng, mode int) *IterSpec {
	s := &IterSpec{Rev: r.Bool()}
	x := r.Intn(100)
	switch {
	case x < 45:
		s.EndMode = "prefix"
	case x < 90:
		s.EndMode = "range"
	default:
		s.EndMode = "open"
	}
	if !r.Chance(12) {
		s.Start = randBound(r, mode)
		if s.EndMode == "prefix" && r.Chance(50) && len(s.Start) > 1 {
			s.Start = s.Start[:r.Range(1, len(s.Start)-1)]
		}
	}
	if s.EndMode == "range" {
		s.End = randBound(r, mode)
		if r.Chance(60) && s.Start != nil && bytes.Compare(s.Start, s.End) > 0 {
			s.Start, s.End = s.End, s.Start
		}
		if r.Chance(5) && s.Start != nil {
			s.End = append([]byte{}, s.Start...)
		}
	}
	target := func() []byte {
		switch r.Intn(10) {
		case 0:
			if s.Start != nil {
				return append([]byte{}, s.Start...)
			}
		case 1:
			if s.End != nil {
				return append([]byte{}, s.End...)
			}
		case 2:
			if len(s.Start) > 1 {
				return append([]byte{}, s.Start[:len(s.Start)-1]...) // below the range
			}
		case 3:
			if s.End != nil {
				return append(append([]byte{}, s.End...), randKey(r, mode)[0]) // above the range
			}
		case 4:
			if s.Start != nil {
				return append(append([]byte{}, s.Start...), randKey(r, mode)...) // inside a prefix range
			}
		}
		return randBound(r, mode)
	}
	if r.Chance(35) {
		s.Script = []Step{{K: "R"}, {K: "A"}}
		if r.Chance(40) {
			s.Script = append(s.Script, Step{K: "S", T: target()}, Step{K: "A"})
		}
		return s
	}
	if r.Chance(55) {
		s.Script = append(s.Script, Step{K: "R"})
	} else {
		s.Script = append(s.Script, Step{K: "S", T: target()})
	}
	n := r.Range(0, 9)
	for i := 0; i < n; i++ {
		x := r.Intn(100)
		switch {
		case x < 45:
			s.Script = append(s.Script, Step{K: "N"})
		case x < 75:
			s.Script = append(s.Script, Step{K: "S", T: target()})
		case x < 85:
			s.Script = append(s.Script, Step{K: "R"})
		default:
			s.Script = append(s.Script, Step{K: "A"})
		}
	}
	return s
}

func genProgram(r *lib.Rng, idx int, maxOps int) *Program {
	p := &Program{Mode: idx % 5}
	p.FF = p.Mode == 1 || p.Mode == 2
	lo := 200
	if !p.FF { // three-way cases pay one fsync per badger write: shorter programs
		lo = 120
		maxOps = 260 + (maxOps-600)*44/140
	}
	n := r.Range(lo, maxOps)
	for i := 0; i < n; i++ {
		x := r.Intn(100)
		tag := fmt.Sprint(i)
		switch {
		case x < 20:
			v, vnil := randVal(r, tag)
			kind := "set"
			if r.Chance(4) {
				kind = "setsync"
			}
			p.Ops = append(p.Ops, Op{Kind: kind, K: randKey(r, p.Mode), V: v, VNil: vnil})
		case x < 29:
			kind := "del"
			if r.Chance(4) {
				kind = "delsync"
			}
			p.Ops = append(p.Ops, Op{Kind: kind, K: randKey(r, p.Mode)})
		case x < 38:
			op := Op{Kind: "batch", Sync: r.Chance(5)}
			m := r.Range(1, 8)
			for j := 0; j < m; j++ {
				var k []byte
				if j > 0 && r.Chance(35) { // same key again: set-then-delete, delete-then-set, set-set
					k = append([]byte{}, op.Batch[r.Intn(j)].K...)
				} else {
					k = randKey(r, p.Mode)
				}
				b := BOp{K: k, Reset: j > 0 && r.Chance(6)}
				if r.Chance(35) {
					b.Del = true
				} else {
					b.V, b.VNil = randVal(r, fmt.Sprintf("%d.%d", i, j))
				}
				op.Batch = append(op.Batch, b)
			}
			p.Ops = append(p.Ops, op)
		case x < 48:
			p.Ops = append(p.Ops, Op{Kind: "get", K: randKey(r, p.Mode)})
		case x < 99:
			p.Ops = append(p.Ops, Op{Kind: "iter", It: genIter(r, p.Mode)})
		default:
			p.Ops = append(p.Ops, Op{Kind: "flush"})
		}
	}
	return p
}

// ---------------------------------------------------------------------------------------------
// model: sorted map + iterator contract of common/db/db.go

type model struct{ m map[string][]byte }

func newModel() *model { return &model{m: map[string][]byte{}} }

func (m *model) clone() *model {
	n := newModel()
	for k, v := range m.m {
		n.m[k] = v
	}
	return n
}

func inRange(k []byte, s *IterSpec) bool {
	switch s.EndMode {
	case "prefix":
		return bytes.HasPrefix(k, s.Start)
	case "open":
		return s.Start == nil || bytes.Compare(k, s.Start) >= 0
	default:
		return (s.Start == nil || bytes.Compare(k, s.Start) >= 0) && bytes.Compare(k, s.End) < 0
	}
}

func (m *model) keysIn(s *IterSpec) []string {
	var ks []string
	for k := range m.m {
		if inRange([]byte(k), s) {
			ks = append(ks, k)
		}
	}
	sort.Strings(ks)
	return ks
}

type cursor struct {
	ks    []string
	pos   int
	valid bool
	rev   bool
}

func (c *cursor) rewind() {
	if len(c.ks) == 0 {
		c.valid = false
		return
	}
	c.valid = true
	c.pos = 0
	if c.rev {
		c.pos = len(c.ks) - 1
	}
}

func (c *cursor) seek(t []byte) {
	ts := string(t)
	if !c.rev {
		c.pos = sort.SearchStrings(c.ks, ts) // first >= t
		c.valid = c.pos < len(c.ks)
		return
	}
	c.pos = sort.Search(len(c.ks), func(i int) bool { return c.ks[i] > ts }) - 1 // last <= t
	c.valid = c.pos >= 0
}

func (c *cursor) next() {
	if !c.valid {
		return
	}
	if c.rev {
		c.pos--
	} else {
		c.pos++
	}
	c.valid = c.pos >= 0 && c.pos < len(c.ks)
}

type obs struct {
	Ret, Valid bool
	Key, Val   []byte
	ValCopy    []byte
}

func (o obs) String() string {
	if !o.Valid {
		return fmt.Sprintf("{ret=%v invalid}", o.Ret)
	}
	return fmt.Sprintf("{ret=%v key=%q val=%q}", o.Ret, o.Key, o.Val)
}

func sameObs(a, b obs) bool {
	if a.Ret != b.Ret || a.Valid != b.Valid {
		return false
	}
	if !a.Valid {
		return true
	}
	return bytes.Equal(a.Key, b.Key) && bytes.Equal(a.Val, b.Val) && bytes.Equal(a.ValCopy, b.ValCopy)
}

// effective exclusive upper bound of the spec (nil = none); only used to classify badger divergences
func effEnd(s *IterSpec) []byte {
	switch s.EndMode {
	case "range":
		return s.End
	case "prefix":
		for i := len(s.Start) - 1; i >= 0; i-- {
			if s.Start[i] < 0xff {
				e := append([]byte{}, s.Start[:i+1]...)
				e[i]++
				return e
			}
		}
	}
	return nil
}

// ---------------------------------------------------------------------------------------------
// backends

type backend struct {
	name     string
	db       dbm.DB
	it       dbm.Iterator
	diverged bool // current iterator diverged from the model: wait for the next positioning step
	rvalid   bool // last observed Valid() of the real iterator
}

func openBackends(names []string, dir string) []*backend {
	var bes []*backend
	for _, n := range names {
		d := filepath.Join(dir, n)
		os.MkdirAll(d, 0o755)
		bes = append(bes, &backend{name: n, db: dbm.NewDB("c06", n, d, 16)})
	}
	return bes
}

func closeBackends(bes []*backend, dir string) {
	for _, b := range bes {
		func() {
			defer func() { recover() }()
			b.db.Close()
		}()
	}
	os.RemoveAll(dir)
}

func observe(it dbm.Iterator, ret bool) obs {
	o := obs{Ret: ret, Valid: it.Valid()}
	if o.Valid {
		o.Key = append([]byte{}, it.Key()...)
		o.Val = append([]byte{}, it.Value()...)
		o.ValCopy = append([]byte{}, it.ValueCopy()...)
	}
	return o
}

type viol struct {
	Idx     int    `json:"idx"`
	Shape   string `json:"shape"`
	Msg     string `json:"msg"`
	Witness any    `json:"witness"`
}

type div struct {
	be     string
	step   int
	shape  string
	msg    string
	others string
}

func dirName(rev bool) string {
	if rev {
		return "rev"
	}
	return "fwd"
}

// shape of an iterator divergence
func iterShape(be string, s *IterSpec, st Step, want, got obs) string {
	if be == beBadger {
		e := effEnd(s)
		if got.Valid && e != nil && bytes.Equal(got.Key, e) {
			return "gobadgerdb-end-bound-inclusive-" + dirName(s.Rev)
		}
		if st.K == "S" {
			below := s.Start != nil && bytes.Compare(st.T, s.Start) < 0
			above := e != nil && bytes.Compare(st.T, e) >= 0
			if (!s.Rev && below && want.Valid && !got.Valid) || (s.Rev && above && want.Valid && !got.Valid) {
				return "gobadgerdb-seek-outside-range-" + dirName(s.Rev)
			}
		}
	}
	what := "wrong-key"
	switch {
	case want.Valid && !got.Valid:
		what = "missed"
	case !want.Valid && got.Valid:
		what = "out-of-range"
	case want.Valid && got.Valid && bytes.Equal(want.Key, got.Key):
		what = "wrong-value"
		if want.Ret != got.Ret {
			what = "wrong-return"
		}
	case !want.Valid && !got.Valid:
		what = "wrong-return"
	}
	return fmt.Sprintf("%s-iter-%s-%s-%s-%s", be, st.K, dirName(s.Rev), s.EndMode, what)
}

type stats struct {
	counters map[string]int64
	sets     map[string]map[string]struct{}
}

func newStats() *stats {
	return &stats{counters: map[string]int64{}, sets: map[string]map[string]struct{}{}}
}
func (s *stats) count(k string, n int64) { s.counters[k] += n }
func (s *stats) seen(set, v string) {
	m := s.sets[set]
	if m == nil {
		m = map[string]struct{}{}
		s.sets[set] = m
	}
	m[v] = struct{}{}
}

// driveIter runs the script of one iterator query on the model and the given backends in lock-step.
func driveIter(m *model, s *IterSpec, bes []*backend, st *stats) (divs []div, flags map[string]bool) {
	flags = map[string]bool{}
	ks := m.keysIn(s)
	cur := &cursor{ks: ks, rev: s.Rev}
	if len(ks) > 0 && len(ks) < len(m.m) {
		flags["proper_subset"] = true
	}
	end := s.End
	if s.EndMode == "open" {
		end = types.EmptyValue
	}
	for _, b := range bes {
		b.diverged = false
		b.rvalid = false
		func() {
			defer func() {
				if e := recover(); e != nil {
					b.it = nil
					shape := b.name + "-iterator-open-panic"
					if s.EndMode == "range" && s.Start != nil && bytes.Compare(s.Start, s.End) > 0 {
						shape += "-inverted-range"
					}
					divs = append(divs, div{be: b.name, step: -1, shape: shape,
						msg: fmt.Sprintf("%s Iterator(start=%q end=%q mode=%s %s) panics: %v (model: a valid iterator over %d in-range keys)",
							b.name, s.Start, s.End, s.EndMode, dirName(s.Rev), e, len(ks))})
				}
			}()
			b.it = b.db.Iterator(s.Start, end, s.Rev)
		}()
	}
	defer func() {
		for _, b := range bes {
			if b.it != nil {
				b.it.Close()
				b.it = nil
			}
		}
	}()
	stepOnce := func(si int, sp Step) {
		wasValid := cur.valid
		switch sp.K {
		case "R":
			cur.rewind()
		case "S":
			cur.seek(sp.T)
		case "N":
			cur.next()
		}
		want := obs{Ret: cur.valid, Valid: cur.valid}
		if cur.valid {
			want.Key = []byte(cur.ks[cur.pos])
			want.Val = m.m[cur.ks[cur.pos]]
			want.ValCopy = want.Val
		}
		if st != nil {
			st.count("iter_steps_"+sp.K, 1)
			if sp.K == "S" {
				if _, ok := m.m[string(sp.T)]; !ok && cur.valid {
					if s.Rev {
						flags["rev_seek_between"] = true
					} else {
						flags["fwd_seek_between"] = true
					}
				}
				if !inRange(sp.T, s) {
					st.count("seek_targets_outside_range", 1)
				}
			}
			if cur.valid {
				st.count("iter_positions_valid", 1)
			}
		}
		gots := make([]obs, len(bes))
		ran := make([]bool, len(bes))
		for i, b := range bes {
			if b.it == nil {
				continue
			}
			if sp.K == "N" {
				if b.name == beBadger && (!wasValid || !b.rvalid) {
					continue // Next on an invalid badger iterator is outside any documented use (nil item)
				}
				if b.diverged {
					continue
				}
			}
			var ret bool
			switch sp.K {
			case "R":
				ret = b.it.Rewind()
				b.diverged = false
			case "S":
				ret = b.it.Seek(sp.T)
				b.diverged = false
			case "N":
				ret = b.it.Next()
			}
			gots[i] = observe(b.it, ret)
			b.rvalid = gots[i].Valid
			ran[i] = true
		}
		for i, b := range bes {
			if !ran[i] {
				continue
			}
			if st != nil {
				st.count("iter_observations_"+b.name, 1)
			}
			if sameObs(want, gots[i]) {
				continue
			}
			b.diverged = true
			var others []string
			for j, o := range bes {
				if j != i && ran[j] {
					others = append(others, o.name+"="+gots[j].String())
				}
			}
			divs = append(divs, div{be: b.name, step: si, shape: iterShape(b.name, s, sp, want, gots[i]),
				msg: fmt.Sprintf("%s iterator(start=%q end=%q mode=%s %s) step %d %s(%q): got %s, model %s",
					b.name, s.Start, s.End, s.EndMode, dirName(s.Rev), si, sp.K, sp.T, gots[i], want),
				others: strings.Join(others, " ")})
		}
	}
	for si, sp := range s.Script {
		if sp.K == "A" {
			for n := 0; cur.valid && n < 300; n++ {
				stepOnce(si, Step{K: "N"})
			}
			// one more Next past the end on the backends that tolerate it
			stepOnce(si, Step{K: "N"})
			if st != nil {
				flags["full_scan"] = true
			}
			continue
		}
		stepOnce(si, sp)
	}
	return divs, flags
}

func setVal(v []byte, vnil bool) []byte {
	if vnil {
		return nil
	}
	if v == nil {
		return []byte{}
	}
	return v
}

// applyWrite applies a mutating op to one backend (errors of Delete on absent keys are not part of the statement)
func applyWrite(b *backend, op *Op, st *stats) {
	cnt := func(k string) {
		if st != nil {
			st.count(k, 1)
		}
	}
	switch op.Kind {
	case "set":
		if err := b.db.Set(op.K, setVal(op.V, op.VNil)); err != nil {
			cnt("set_errors_" + b.name)
		}
	case "setsync":
		if err := b.db.SetSync(op.K, setVal(op.V, op.VNil)); err != nil {
			cnt("set_errors_" + b.name)
		}
	case "del":
		if err := b.db.Delete(op.K); err != nil {
			cnt("delete_errors_" + b.name)
		}
	case "delsync":
		if err := b.db.DeleteSync(op.K); err != nil {
			cnt("delete_errors_" + b.name)
		}
	case "batch":
		bt := b.db.NewBatch(op.Sync)
		for _, e := range op.Batch {
			if e.Reset {
				if err := bt.Write(); err != nil {
					cnt("batch_write_errors_" + b.name)
				}
				bt.Reset()
			}
			if e.Del {
				bt.Delete(e.K)
			} else {
				bt.Set(e.K, setVal(e.V, e.VNil))
			}
		}
		if err := bt.Write(); err != nil {
			cnt("batch_write_errors_" + b.name)
		}
	case "flush":
		if b.name == beLevel {
			if err := b.db.CompactRange(nil, nil); err != nil {
				cnt("flush_errors")
			}
		}
	}
}

func (m *model) apply(op *Op) (touched [][]byte) {
	switch op.Kind {
	case "set", "setsync":
		m.m[string(op.K)] = append([]byte{}, op.V...)
		touched = append(touched, op.K)
	case "del", "delsync":
		delete(m.m, string(op.K))
		touched = append(touched, op.K)
	case "batch":
		for _, e := range op.Batch {
			if e.Del {
				delete(m.m, string(e.K))
			} else {
				m.m[string(e.K)] = append([]byte{}, e.V...)
			}
			touched = append(touched, e.K)
		}
	}
	return
}

type getObs struct {
	Found bool
	Val   []byte
	Err   string
}

func (g getObs) String() string {
	if g.Err != "" {
		return "{error " + g.Err + "}"
	}
	if !g.Found {
		return "{not found}"
	}
	return fmt.Sprintf("{%q}", g.Val)
}

func doGet(b *backend, k []byte) getObs {
	v, err := b.db.Get(k)
	if err == dbm.ErrNotFoundInDb {
		if v != nil {
			return getObs{Err: "value returned together with ErrNotFound"}
		}
		return getObs{}
	}
	if err != nil {
		return getObs{Err: err.Error()}
	}
	if v == nil {
		return getObs{Err: "nil value without error"}
	}
	return getObs{Found: true, Val: v}
}

func (m *model) get(k []byte) getObs {
	v, ok := m.m[string(k)]
	if !ok {
		return getObs{}
	}
	return getObs{Found: true, Val: v}
}

func sameGet(a, b getObs) bool {
	return a.Err == b.Err && a.Found == b.Found && bytes.Equal(a.Val, b.Val)
}

func qs(b []byte) string {
	if b == nil {
		return "nil"
	}
	return fmt.Sprintf("%q", b)
}

func opWitness(op *Op) any {
	switch op.Kind {
	case "batch":
		var es []string
		for _, e := range op.Batch {
			s := ""
			if e.Reset {
				s = "write;reset;"
			}
			if e.Del {
				s += "del(" + qs(e.K) + ")"
			} else {
				s += "set(" + qs(e.K) + "," + qs(setVal(e.V, e.VNil)) + ")"
			}
			es = append(es, s)
		}
		return map[string]any{"batch": es}
	case "set", "setsync":
		return fmt.Sprintf("%s(%s,%s)", op.Kind, qs(op.K), qs(setVal(op.V, op.VNil)))
	case "iter":
		return iterWitness(op.It)
	default:
		return fmt.Sprintf("%s(%s)", op.Kind, qs(op.K))
	}
}

func iterWitness(s *IterSpec) any {
	var sc []string
	for _, st := range s.Script {
		if st.K == "S" {
			sc = append(sc, "Seek("+qs(st.T)+")")
		} else {
			sc = append(sc, map[string]string{"R": "Rewind", "N": "Next", "A": "Next*"}[st.K])
		}
	}
	end := qs(s.End)
	if s.EndMode == "open" {
		end = "types.EmptyValue"
	}
	return map[string]any{"Iterator": fmt.Sprintf("(start=%s, end=%s, reverse=%v)", qs(s.Start), end, s.Rev), "script": sc}
}

func kvWitness(m *model) []string {
	var ks []string
	for k := range m.m {
		ks = append(ks, k)
	}
	sort.Strings(ks)
	out := make([]string, len(ks))
	for i, k := range ks {
		out[i] = fmt.Sprintf("%q=%q", k, m.m[k])
	}
	return out
}

// ---------------------------------------------------------------------------------------------
// minimisation: re-run an iterator query on a fresh backend loaded with the model contents

// scratch databases reused by the minimiser (one per backend and child process): loaded with the
// contents under test, queried, and emptied again
var scratch = map[string]*backend{}
var scratchDir string

func scratchBackend(be, tmp string) *backend {
	if be == beMem {
		return openBackends([]string{be}, filepath.Join(tmp, "scratch-mem"))[0]
	}
	if b := scratch[be]; b != nil {
		return b
	}
	scratchDir = filepath.Join(tmp, "scratch")
	b := openBackends([]string{be}, filepath.Join(scratchDir, be))[0]
	scratch[be] = b
	return b
}

func closeScratch() {
	for _, b := range scratch {
		b.db.Close()
	}
	scratch = map[string]*backend{}
	if scratchDir != "" {
		os.RemoveAll(scratchDir)
	}
}

func reproIter(be string, m *model, s *IterSpec, tmp string) []div {
	b := scratchBackend(be, tmp)
	ks := make([]string, 0, len(m.m))
	for k := range m.m {
		ks = append(ks, k)
	}
	sort.Strings(ks)
	for _, k := range ks {
		b.db.Set([]byte(k), m.m[k])
	}
	divs, _ := driveIter(m, s, []*backend{b}, nil)
	for _, k := range ks {
		b.db.Delete([]byte(k))
	}
	return divs
}

func minimiseIter(be string, m *model, s *IterSpec, d div, tmp string) (*model, *IterSpec, *div, bool) {
	budget := 80
	try := func(mm *model, ss *IterSpec) *div {
		if budget <= 0 {
			return nil
		}
		budget--
		rs := reproIter(be, mm, ss, tmp)
		for i := len(rs) - 1; i >= 0; i-- {
			if rs[i].shape == d.shape {
				return &rs[i]
			}
		}
		return nil
	}
	cs := *s
	cs.Script = append([]Step{}, s.Script[:d.step+1]...)
	best := try(m, &cs)
	if best == nil {
		return m, s, &d, false // depends on the write history, keep the original
	}
	cm := m.clone()
	// drop script steps, last first
	for i := len(cs.Script) - 1; i >= 0 && len(cs.Script) > 1; i-- {
		ts := cs
		ts.Script = append(append([]Step{}, cs.Script[:i]...), cs.Script[i+1:]...)
		if r := try(cm, &ts); r != nil {
			cs, best = ts, r
		}
	}
	// drop keys
	ks := make([]string, 0, len(cm.m))
	for k := range cm.m {
		ks = append(ks, k)
	}
	sort.Strings(ks)
	for _, k := range ks {
		tm := cm.clone()
		delete(tm.m, k)
		if r := try(tm, &cs); r != nil {
			cm, best = tm, r
		}
	}
	return cm, &cs, best, true
}

// ---------------------------------------------------------------------------------------------
// one case

type caseResult struct {
	Idx        int                 `json:"idx"`
	FP         string              `json:"fp"`
	Nontrivial bool                `json:"nontrivial"`
	Counters   map[string]int64    `json:"counters"`
	Sets       map[string][]string `json:"sets"`
	Viol       []viol              `json:"viol"`
	Sample     any                 `json:"sample,omitempty"`
}

var minimised = map[string]int{} // per child process: shapes already minimised once

func runCase(idx int, p *Program, tmp string) (res caseResult) {
	st := newStats()
	res.Idx = idx
	res.FP = lib.Fingerprint(p)
	names := []string{beMem, beLevel}
	if !p.FF {
		names = append(names, beBadger)
	}
	dir := filepath.Join(tmp, fmt.Sprintf("case-%d", idx))
	bes := openBackends(names, dir)
	defer closeBackends(bes, dir)
	m := newModel()
	report := func(shape, msg string, w any) {
		if len(res.Viol) < 12 {
			res.Viol = append(res.Viol, viol{Idx: idx, Shape: shape, Msg: msg, Witness: w})
		}
		st.count("divergences", 1)
	}
	lastWriter := map[string]string{} // key -> kind of the op that wrote it last
	history := map[string][]any{}     // key -> ops touching it
	flags := map[string]bool{}
	checkGet := func(k []byte, ctx string) {
		want := m.get(k)
		gots := make([]getObs, len(bes))
		for i, b := range bes {
			gots[i] = doGet(b, k)
			st.count("gets_compared_"+b.name, 1)
		}
		if want.Found {
			st.count("gets_found", 1)
		} else {
			st.count("gets_absent", 1)
		}
		for i, b := range bes {
			if sameGet(want, gots[i]) {
				continue
			}
			var others []string
			for j, o := range bes {
				if j != i {
					others = append(others, o.name+"="+gots[j].String())
				}
			}
			what := "stale"
			if want.Found && !gots[i].Found {
				what = "missing"
			} else if !want.Found && gots[i].Found {
				what = "phantom"
			} else if gots[i].Err != "" {
				what = "error"
			}
			lw := lastWriter[string(k)]
			if lw == "" {
				lw = "never-written"
			}
			report(fmt.Sprintf("%s-get-%s-after-%s", b.name, what, lw),
				fmt.Sprintf("%s Get(%q) %s: got %s, model %s [%s]", b.name, k, ctx, gots[i], want, strings.Join(others, " ")),
				map[string]any{"backend": b.name, "key": qs(k), "ops_on_key": history[string(k)], "got": gots[i].String(), "model": want.String()})
		}
	}
	for oi := range p.Ops {
		op := &p.Ops[oi]
		st.count("ops_"+op.Kind, 1)
		switch op.Kind {
		case "get":
			checkGet(op.K, "(generated read)")
		case "iter":
			divs, fl := driveIter(m, op.It, bes, st)
			for k, v := range fl {
				if v {
					flags[k] = true
				}
			}
			st.count("iterators_"+op.It.EndMode+"_"+dirName(op.It.Rev), 1)
			for _, d := range divs {
				d := d
				mm, ss, dd := m, op.It, &d
				min := false
				shape := d.shape
				if d.step < 0 {
					shape = d.shape
				} else if minimised[d.be+d.shape] == 0 {
					minimised[d.be+d.shape] = 1
					mm, ss, dd, min = minimiseIter(d.be, m, op.It, d, tmp)
					if !min {
						shape += "-history-dependent" // not reproducible from the live contents alone
					}
				}
				msg := dd.msg
				if d.others != "" {
					msg += " [same step of the generated case on the other backends: " + d.others + "]"
				}
				report(shape, msg, map[string]any{"backend": d.be, "db_contents": kvWitness(mm), "query": iterWitness(ss),
					"failing_step": dd.step, "minimised": min, "op_index": oi, "leveldb_compactions_before": st.counters["ops_flush"]})
			}
		case "flush":
			for _, b := range bes {
				applyWrite(b, op, st)
			}
		default:
			// measure batch non-triviality on the model before applying
			if op.Kind == "batch" {
				seen := map[string]bool{}
				for _, e := range op.Batch {
					if seen[string(e.K)] {
						flags["batch_same_key_twice"] = true
					}
					seen[string(e.K)] = true
					if _, live := m.m[string(e.K)]; live && e.Del {
						flags["batch_deletes_live_key"] = true
					}
					if !e.Del && len(e.V) == 0 {
						st.count("batch_empty_value_sets", 1)
					}
					if e.Reset {
						st.count("batch_reuse_after_reset", 1)
					}
				}
				st.count("batch_entries", int64(len(op.Batch)))
			} else if (op.Kind == "set" || op.Kind == "setsync") && len(op.V) == 0 {
				st.count("empty_value_sets", 1)
			}
			for _, b := range bes {
				applyWrite(b, op, st)
			}
			touched := m.apply(op)
			w := opWitness(op)
			done := map[string]bool{}
			for _, k := range touched {
				if done[string(k)] {
					continue
				}
				done[string(k)] = true
				lastWriter[string(k)] = op.Kind
				if h := history[string(k)]; len(h) < 40 {
					history[string(k)] = append(h, w)
				}
				checkGet(k, "(read after "+op.Kind+")")
			}
		}
	}
	// final full scans, both directions, two spellings of "everything"
	for _, s := range []*IterSpec{
		{EndMode: "prefix", Script: []Step{{K: "R"}, {K: "A"}}},
		{EndMode: "prefix", Rev: true, Script: []Step{{K: "R"}, {K: "A"}}},
		{EndMode: "open", Script: []Step{{K: "R"}, {K: "A"}}},
		{EndMode: "open", Rev: true, Script: []Step{{K: "R"}, {K: "A"}}},
	} {
		divs, _ := driveIter(m, s, bes, st)
		for _, d := range divs {
			report(d.shape+"-final-scan", d.msg, map[string]any{"backend": d.be, "db_contents": kvWitness(m), "query": iterWitness(s)})
		}
	}
	st.count("final_live_keys", int64(len(m.m)))
	st.count("cases_"+map[bool]string{true: "two_way_with_0xff", false: "three_way"}[p.FF], 1)
	res.Nontrivial = (flags["batch_same_key_twice"] || flags["batch_deletes_live_key"]) && flags["proper_subset"] &&
		flags["rev_seek_between"] && flags["fwd_seek_between"] && flags["full_scan"]
	for k, v := range flags {
		if v {
			st.count("cases_with_"+k, 1)
		}
	}
	res.Counters = st.counters
	res.Sets = map[string][]string{}
	for k, mset := range st.sets {
		for v := range mset {
			res.Sets[k] = append(res.Sets[k], v)
		}
	}
	if idx%50 == 0 {
		n := 6
		if len(p.Ops) < n {
			n = len(p.Ops)
		}
		var ops []any
		for i := 0; i < n; i++ {
			ops = append(ops, opWitness(&p.Ops[i]))
		}
		res.Sample = map[string]any{"case": idx, "alphabet_mode": p.Mode, "ops": len(p.Ops), "first_ops": ops, "backends": names}
	}
	return res
}

// ---------------------------------------------------------------------------------------------
// fixed probes: the smallest inputs of the deviations known on the unchanged tree (and their
// counterparts on the other backends). They run on every backend in every run.

func probes() []*Program {
	kv := func(ks ...string) []Op {
		var ops []Op
		for _, k := range ks {
			ops = append(ops, Op{Kind: "set", K: []byte(k), V: []byte("v" + k)})
		}
		return ops
	}
	it := func(start, end string, mode string, rev bool, sc ...Step) Op {
		s := &IterSpec{EndMode: mode, Rev: rev, Script: sc}
		if start != "" {
			s.Start = []byte(start)
		}
		if mode == "range" {
			s.End = []byte(end)
		}
		return Op{Kind: "iter", It: s}
	}
	R, A := Step{K: "R"}, Step{K: "A"}
	S := func(t string) Step { return Step{K: "S", T: []byte(t)} }
	return []*Program{
		{Ops: append(kv("a1", "b"), it("a", "", "prefix", false, R, A))},
		{Ops: append(kv("a1", "b"), it("a", "", "prefix", true, R, A))},
		{Ops: append(kv("a1", "b"), it("a", "b", "range", false, R, A))},
		{Ops: append(kv("a1", "b"), it("a", "b", "range", true, R, A))},
		{Ops: append(kv("a1", "b"), it("a1", "b", "range", false, S("a")))},
		{Ops: append(kv("a1", "c"), it("a1", "b", "range", true, S("b5")))},
		{Ops: append(kv("a", "a1", "a2", "b", "b1", "c"), it("a1", "b1", "range", false, S("a"), A, S("c"), S("a15"), A)), Mode: 0},
		// inverted explicit range over a database that has sorted tables below level 0
		{Ops: append(append(kv("m"), Op{Kind: "flush"}), it("z", "a", "range", false, R, A))},
		{Ops: append(kv("m"), it("z", "a", "range", true, R, A))},
	}
}

// ---------------------------------------------------------------------------------------------
// child / parent

type childIn struct {
	Seed   int64 `json:"seed"`
	MaxOps int   `json:"max_ops"`
	Idx    []int `json:"idx"`    // generated cases
	Probes []int `json:"probes"` // fixed probes (index = -1-n)
}

type childOut struct {
	Cases []caseResult `json:"cases"`
}

func childRun(in []byte) (any, error) {
	log15.Root().SetHandler(log15.DiscardHandler())
	var ci childIn
	if err := json.Unmarshal(in, &ci); err != nil {
		return nil, err
	}
	tmp := os.Getenv("VERIF_TMP")
	cur := filepath.Join(filepath.Dir(os.Getenv("VERIF_CHILD_OUT")), "current-case")
	ctx := &lib.Ctx{Prop: "C06", Seed: ci.Seed}
	var out childOut
	one := func(idx int, p *Program) {
		os.WriteFile(cur, []byte(fmt.Sprint(idx)), 0o644)
		r := func() (r caseResult) {
			defer func() {
				if e := recover(); e != nil {
					r.Idx = idx
					r.FP = lib.Fingerprint(p)
					r.Viol = append(r.Viol, viol{Idx: idx, Shape: "panic", Msg: fmt.Sprintf("panic while executing case %d: %v\n%s", idx, e, debug.Stack()),
						Witness: map[string]any{"panic": fmt.Sprint(e)}})
				}
			}()
			return runCase(idx, p, tmp)
		}()
		out.Cases = append(out.Cases, r)
	}
	ps := probes()
	for _, n := range ci.Probes {
		one(-2-n, ps[n])
	}
	for _, idx := range ci.Idx {
		one(idx, genProgram(ctx.CaseRng("seq", idx), idx, ci.MaxOps))
	}
	return out, nil
}

var (
	shapeMu   sync.Mutex
	shapeSeen = map[string]int64{}
)

func run(c *lib.Ctx) {
	c.Rule("case = generated program (200..N ops, 120..N/3 when badger takes part: Set/SetSync/Delete/DeleteSync, batches with repeated keys, deletes, empty/nil values and Write+Reset reuse, Get, " +
		"iterator queries with prefix / explicit [start,end) / open ranges, forward and reverse, driven by Rewind/Seek/Next scripts, leveldb compaction) over 5 key alphabets " +
		"({a,b}; {00,01,fe,ff}; path-like stems with 0xff; {00,01,7f,fe}; path-like stems without 0xff) executed in lock-step on a sorted-map model, memdb, goleveldb and " +
		"(alphabets without 0xff) badger, each on a fresh database; every write is followed by a Get of the written keys, every iterator step is compared (return value, Valid, Key, Value, ValueCopy). " +
		"non-trivial (measured on the model) = the case had a batch touching one key twice or deleting a live key, an iterator whose in-range set was a non-empty proper subset of the live keys, " +
		"a forward and a reverse Seek that landed on a neighbour of an absent target, and a full scan to exhaustion")
	c.Assume("iterators are opened, driven and closed between writes (goleveldb iterators are snapshots, memdb iterators are live views; the statement speaks of iterator queries, not of concurrent mutation)",
		"error values returned by Delete/Write for absent keys are not compared (not part of the statement)",
		"Next on an invalid iterator is compared on memdb/goleveldb (must stay invalid) and not executed on badger (nil item dereference in the library)",
		"empty keys are not written (badger rejects them)")
	n := c.N(100, 1500)
	maxOps := 600
	if !c.Quick() {
		maxOps = 2000
	}
	workers := 12
	var idxs []int
	for i := 0; i < n || (c.OnlyIdx >= 0 && i <= c.OnlyIdx); i++ {
		if c.Skip(i) {
			continue
		}
		idxs = append(idxs, i)
	}
	chunk := (len(idxs) + workers - 1) / workers
	if chunk > 40 {
		chunk = 40
	}
	if chunk < 1 {
		chunk = 1
	}
	var jobs []childIn
	switch {
	case c.Replay != "" && c.OnlyIdx <= -2: // replay of a fixed probe
		jobs = append(jobs, childIn{Seed: c.Seed, MaxOps: maxOps, Probes: []int{-2 - c.OnlyIdx}})
		idxs = nil
	case c.Replay == "":
		var pr []int
		for i := range probes() {
			pr = append(pr, i)
		}
		jobs = append(jobs, childIn{Seed: c.Seed, MaxOps: maxOps, Probes: pr})
	}
	for i := 0; i < len(idxs); i += chunk {
		e := i + chunk
		if e > len(idxs) {
			e = len(idxs)
		}
		jobs = append(jobs, childIn{Seed: c.Seed, MaxOps: maxOps, Idx: idxs[i:e]})
	}
	lib.Parallel(len(jobs), workers, func(j int) {
		dir := filepath.Join(c.Tmp, fmt.Sprintf("job-%d", j))
		res := c.Child("run", jobs[j], lib.ChildOpts{Dir: dir, Timeout: 40 * time.Minute})
		var out childOut
		if res.Out != nil {
			json.Unmarshal(res.Out, &out)
		}
		if res.TimedOut {
			c.Inconclusive("child %d timed out", j)
		} else if res.Died {
			cur, _ := os.ReadFile(filepath.Join(dir, "current-case"))
			idx := -1
			fmt.Sscan(string(cur), &idx)
			c.Violation(idx, "crash", map[string]any{"case": idx, "stderr": res.Stderr},
				"child process died (exit %d) while executing case %s: %s", res.ExitCode, cur, res.Stderr)
		}
		for _, r := range out.Cases {
			for k, v := range r.Counters {
				c.Count(k, v)
			}
			for k, vs := range r.Sets {
				for _, v := range vs {
					c.Seen(k, v)
				}
			}
			for _, v := range r.Viol {
				c.Seen("divergence_shapes", v.Shape)
				shapeMu.Lock()
				shapeSeen[v.Shape]++
				shapeMu.Unlock()
				c.Violation(v.Idx, v.Shape, v.Witness, "%s", v.Msg)
			}
			if r.Idx >= 0 {
				c.Case(r.FP, r.Nontrivial, r.Sample)
			} else {
				c.Count("fixed_probes", 1)
			}
		}
		os.RemoveAll(dir)
	})
	shapeCount := map[string]int64{}
	shapeMu.Lock()
	for k, v := range shapeSeen {
		shapeCount[k] = v
	}
	shapeMu.Unlock()
	c.Extra("divergences_by_shape", shapeCount)
	var obsTotal int64
	for _, b := range []string{beMem, beLevel, beBadger} {
		obsTotal += c.Counter("iter_observations_" + b)
	}
	c.Extra("iterator_observations_compared", obsTotal)
	c.RequireEvents("iter_observations_"+beMem, 1000)
	c.RequireEvents("iter_observations_"+beLevel, 1000)
	c.RequireEvents("iter_observations_"+beBadger, 500)
	c.RequireEvents("ops_batch", 50)
}

func main() {
	lib.RegisterChild("run", childRun)
	lib.Main("C06", "exploration", run)
}
