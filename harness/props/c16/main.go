// C16: transaction hash and signature bind every signed field.
//
// One child process per crypto configuration (enable heights / enabled types are process globals). In each child,
// for every registered crypto driver and address format, generated transactions are signed with a deterministic
// key and pushed through metamorphic checks driven by the protobuf DESCRIPTOR of types.Transaction:
//   - Hash() is invariant under signature/header mutations and changes under every other field mutation;
//   - Clone()/CloneTx() preserve Hash, FullHash and every field;
//   - the honest signature verifies at every height where the type is enabled and at none where it is disabled;
//   - every mutation of a signed field (incl. header/next/groupCount), of the public key or of the signature
//     bytes makes CheckSign fail.
package main

import (
	"bytes"
	"encoding/hex"
	"encoding/json"
	"fmt"
	"math"
	"math/big"
	"os"
	"runtime"
	"sort"
	"strings"
	"sync"
	"time"

	"github.com/33cn/chain33/common/address"
	"github.com/33cn/chain33/common/crypto"
	clog "github.com/33cn/chain33/common/log"
	_ "github.com/33cn/chain33/system/address"
	rpctypes "github.com/33cn/chain33/rpc/ethrpc/types"
	_ "github.com/33cn/chain33/system/crypto/init"
	"github.com/33cn/chain33/system/crypto/secp256k1eth"
	cty "github.com/33cn/chain33/system/dapp/coins/types"
	"github.com/33cn/chain33/types"
	ecommon "github.com/ethereum/go-ethereum/common"
	etypes "github.com/ethereum/go-ethereum/core/types"
	ethcrypto "github.com/ethereum/go-ethereum/crypto"
	"google.golang.org/protobuf/proto"
	"verifharness/lib"
	"verifharness/txmut"
)

// ---------------------------------------------------------------------------------------------
// crypto configurations

type cfgSpec struct {
	Name         string           `json:"name"`
	Init         bool             `json:"init"`
	EnableTypes  []string         `json:"enableTypes"`
	EnableHeight map[string]int64 `json:"enableHeight"`
}

var allTypes = []string{"secp256k1", "ed25519", "sm2", "secp256r1", "secp256k1eth", "none"}

// enabledAt: the documented configuration semantics (common/crypto/crypto.go Init, util.go WithLoadOptionEnableCheck)
func (s cfgSpec) enabledAt(name string, h int64) bool {
	en := name != "none" // none registers itself disabled
	eh := int64(0)
	if s.Init {
		if len(s.EnableTypes) > 0 {
			en = false
			for _, t := range s.EnableTypes {
				en = en || t == name
			}
		}
		if v, ok := s.EnableHeight[name]; ok && en {
			eh = v
		}
	}
	return en && eh >= 0 && h >= eh
}

func (s cfgSpec) heights(name string) []int64 {
	hs := map[int64]bool{0: true, 1: true, 1 << 40: true, math.MaxInt64: true}
	for _, v := range s.EnableHeight {
		for _, d := range []int64{-1, 0, 1} {
			if v+d >= 0 {
				hs[v+d] = true
			}
		}
	}
	var out []int64
	for h := range hs {
		out = append(out, h)
	}
	sort.Slice(out, func(a, b int) bool { return out[a] < out[b] })
	return out
}

func configs(c *lib.Ctx) []cfgSpec {
	r := c.CaseRng("configs", 0)
	stag := map[string]int64{}
	hs := r.Perm(len(allTypes))
	for i, t := range allTypes {
		stag[t] = int64(hs[i]) * int64(r.Range(7, 5000))
	}
	return []cfgSpec{
		{Name: "default-no-init"},
		{Name: "all-types-staggered-heights", Init: true, EnableTypes: allTypes, EnableHeight: stag},
		{Name: "subset-sm2-secp256k1", Init: true, EnableTypes: []string{"secp256k1", "sm2"}, EnableHeight: map[string]int64{"sm2": int64(r.Range(2, 100000)), "ed25519": 10}},
		{Name: "heights-without-type-list", Init: true, EnableHeight: map[string]int64{"ed25519": -1, "secp256r1": int64(r.Range(2, 100000)), "secp256k1eth": 1, "none": 5}},
	}
}

// ---------------------------------------------------------------------------------------------

type childIn struct {
	Seed int64   `json:"seed"`
	Cfg  cfgSpec `json:"cfg"`
	CfgI int     `json:"cfgi"`
	N    int     `json:"n"`    // transactions per (driver, address format)
	Only int     `json:"only"` // -1 or the only case index (replay)
}

type violation struct {
	Index   int    `json:"index"`
	Shape   string `json:"shape"`
	Msg     string `json:"msg"`
	Witness any    `json:"witness"`
}

type caseRec struct {
	FP         string `json:"fp"`
	Nontrivial bool   `json:"nt"`
	Sample     any    `json:"sample,omitempty"`
}

type childOut struct {
	Cases      []caseRec        `json:"cases"`
	Counters   map[string]int64 `json:"counters"`
	Sets       map[string][]string
	Violations []violation `json:"violations"`
}

func init() {
	lib.RegisterChild("cfg", func(in []byte) (any, error) {
		var ci childIn
		if err := json.Unmarshal(in, &ci); err != nil {
			return nil, err
		}
		clog.SetLogLevel("crit")
		devnull, _ := os.OpenFile(os.DevNull, os.O_WRONLY, 0)
		os.Stdout = devnull // the sm2 driver prints to stdout
		if ci.Cfg.Init {
			crypto.Init(&crypto.Config{EnableTypes: ci.Cfg.EnableTypes, EnableHeight: ci.Cfg.EnableHeight},
				map[string][]byte{"secp256k1eth": []byte(`{"evmChainID":3999}`)})
		}
		return runConfig(&ci), nil
	})
}

const cfgStride = 100000 // case index = cfgIndex*cfgStride + case number inside the configuration

func run(c *lib.Ctx) {
	c.Rule("one child process per crypto configuration (4: no Init; all types at staggered PRNG heights incl. none; type subset; heights without a type list incl. a negative one). " +
		"In each: for every keyed driver (secp256k1, ed25519, sm2, secp256r1, secp256k1eth) x address format (btc, eth, ...) N generated transactions (random / undecodable / coins-transfer payloads with and without note, plain and group members with header+next) are signed with a PRNG-derived key; " +
		"every field mutation enumerated from Transaction's protobuf descriptor (incl. signature.*) plus byte-level signature/public-key mutations (zero, 0xff, reverse, swap halves, doubled, other key, other message) is applied to the signed tx; heights 0,1,H-1,H,H+1 around every configured enable height, 2^40, MaxInt64. " +
		"non-trivial case = signed tx whose honest signature verified at an enabled height, for which >=1 hash-changing and >=1 hash-preserving mutation were observed and >=20 mutants were rejected by CheckSign; fingerprint = tx hash+driver+config")
	c.Assume("algebraic re-encodings of the same signature or key (ECDSA s -> n-s, compressed/uncompressed form of the same public key) are not in the mutation alphabet; they do not change the tx hash",
		"signature.ty is not a signed field, public key or signature bytes: its mutations are counted but carry no verdict",
		"the 'none' type has no keys (GenKey returns nil): only its height gating is decided",
		"negative block heights mean 'no height context' in crypto.Load and are not heights",
		"a panic inside CheckSign on a mutant is a rejection (counted)")
	cfgs := configs(c)
	n := c.N(12, 200)
	outs := make([]*childOut, len(cfgs))
	var mu sync.Mutex
	lib.Parallel(len(cfgs), 4, func(i int) {
		only := -1
		if c.OnlyIdx >= 0 {
			if c.OnlyIdx/cfgStride != i {
				return
			}
			only = c.OnlyIdx % cfgStride
		}
		res := c.Child("cfg", childIn{Seed: c.Seed, Cfg: cfgs[i], CfgI: i, N: n, Only: only}, lib.ChildOpts{Timeout: 45 * time.Minute})
		var o childOut
		if res.Died || res.TimedOut || json.Unmarshal(res.Out, &o) != nil {
			c.Inconclusive("child for configuration %s failed: exit=%d timeout=%v %s", cfgs[i].Name, res.ExitCode, res.TimedOut, lib.ShortList(strings.Split(res.Stderr, "\n"), 15))
			return
		}
		mu.Lock()
		outs[i] = &o
		mu.Unlock()
	})
	shapes := map[string]int{}
	for i, o := range outs {
		if o == nil {
			continue
		}
		c.Count("configurations", 1)
		for _, cs := range o.Cases {
			c.Case(cs.FP, cs.Nontrivial, cs.Sample)
		}
		for k, v := range o.Counters {
			c.Count(k, v)
		}
		for set, vals := range o.Sets {
			for _, v := range vals {
				c.Seen(set, v)
			}
		}
		for _, v := range o.Violations {
			shapes[v.Shape]++
			c.Violation(i*cfgStride+v.Index, v.Shape, v.Witness, "[config %s] %s", cfgs[i].Name, v.Msg)
		}
	}
	if len(shapes) > 0 {
		c.Extra("violation_shapes_by_configurations", shapes)
		if os.Getenv("VERIF_DEBUG") != "" {
			b, _ := json.MarshalIndent(shapes, "", " ")
			fmt.Fprintf(os.Stderr, "shapes: %s\n", b)
		}
	}
	c.Extra("configurations", cfgs)
	c.Extra("transaction_fields_from_descriptor", txmut.TopLevelFields())
	c.RequireEvents("honest_signature_verified", 200)
	c.RequireEvents("disabled_height_rejections", 50)
	c.RequireEvents("mutants_rejected_by_CheckSign", 5000)
	c.RequireEvents("hash_changed_as_required", 2000)
}

func main() {
	clog.SetLogLevel("crit")
	lib.Main("C16", "exploration", run)
}

// ---------------------------------------------------------------------------------------------
// inside a child

type cstate struct {
	ci   *childIn
	out  *childOut
	mu   sync.Mutex
	sets map[string]map[string]bool
	ctx  *lib.Ctx
}

func (s *cstate) count(k string, n int64) { s.mu.Lock(); s.out.Counters[k] += n; s.mu.Unlock() }
func (s *cstate) seen(set, v string) {
	s.mu.Lock()
	if s.sets[set] == nil {
		s.sets[set] = map[string]bool{}
	}
	s.sets[set][v] = true
	s.mu.Unlock()
}
func (s *cstate) violate(idx int, shape string, wit any, format string, a ...any) {
	s.mu.Lock()
	defer s.mu.Unlock()
	// one witness per shape and configuration is enough; the rest is counted
	for _, v := range s.out.Violations {
		if v.Shape == shape {
			s.out.Counters["further_witnesses_of_reported_shapes"]++
			return
		}
	}
	s.out.Violations = append(s.out.Violations, violation{idx, shape, fmt.Sprintf(format, a...), wit})
}

func checkSign(tx *types.Transaction, h int64) (ok bool, panicked string) {
	defer func() {
		if r := recover(); r != nil {
			ok, panicked = false, fmt.Sprint(r)
		}
	}()
	return tx.CheckSign(h), ""
}

func runConfig(ci *childIn) *childOut {
	s := &cstate{ci: ci, out: &childOut{Counters: map[string]int64{}}, sets: map[string]map[string]bool{}, ctx: &lib.Ctx{Prop: "C16", Seed: ci.Seed}}
	drivers := txmut.KeyedDrivers()
	var addrIDs []int32
	for id := range address.GetDriverList() {
		addrIDs = append(addrIDs, id)
	}
	sort.Slice(addrIDs, func(a, b int) bool { return addrIDs[a] < addrIDs[b] })
	for _, d := range drivers {
		s.seen("keyed_drivers", d)
	}
	for _, id := range addrIDs {
		s.seen("address_formats", fmt.Sprint(id))
	}
	type job struct {
		idx    int
		driver string
		addrID int32
	}
	var jobs []job
	idx := 0
	for _, d := range drivers {
		for _, a := range addrIDs {
			for k := 0; k < ci.N; k++ {
				jobs = append(jobs, job{idx, d, a})
				idx++
			}
		}
	}
	noneBase := idx
	lib.Parallel(len(jobs), runtime.NumCPU()/2+1, func(j int) {
		jb := jobs[j]
		if ci.Only >= 0 && jb.idx != ci.Only {
			return
		}
		s.txCase(jb.idx, jb.driver, jb.addrID)
	})
	if ci.Only < 0 || ci.Only >= noneBase {
		s.noneCases(noneBase)
	}
	s.out.Sets = map[string][]string{}
	for set, m := range s.sets {
		for v := range m {
			s.out.Sets[set] = append(s.out.Sets[set], v)
		}
		sort.Strings(s.out.Sets[set])
	}
	return s.out
}

// the none type: no key, so no honest signature; it must not verify anything while disabled
func (s *cstate) noneCases(base int) {
	cfg := s.ci.Cfg
	r := s.ctx.CaseRng("none-"+cfg.Name, 0)
	id := int32(crypto.GetType("none"))
	for k, h := range cfg.heights("none") {
		tx := genTx(r, "random", 33)
		tx.Signature = &types.Signature{Ty: types.EncodeSignID(id, 0), Pubkey: r.Bytes(33), Signature: r.Bytes(64)}
		ok, _ := checkSign(tx, h)
		en := cfg.enabledAt("none", h)
		switch {
		case !en && ok:
			s.violate(base+k, "verifies-when-disabled:none", map[string]any{"height": h, "tx": hex.EncodeToString(types.Encode(tx))},
				"signature type none verifies at height %d where it is disabled", h)
		case !en:
			s.count("disabled_height_rejections", 1)
		default:
			s.count("none_type_enabled_heights_observed", 1)
		}
	}
}

var payloadKinds = []string{"undecodable", "random", "empty", "coins-transfer", "coins-transfer-note", "group-member", "group-head", "eth-wrapped"}

var nodeCfg *types.Chain33Config
var nodeCfgOnce sync.Once

// ethWrapped builds what eth_sendRawTransaction builds: an ethereum transaction signed with the sender's key
// (London signer), wrapped by rpc/ethrpc/types.AssembleChain33Tx into a chain33 evm transaction whose signature is
// the ethereum signature and whose note carries the raw ethereum transaction.
func ethWrapped(r *lib.Rng) (*types.Transaction, string) {
	nodeCfgOnce.Do(func() { nodeCfg = types.NewChain33Config(types.GetDefaultCfgstring()) })
	kb := r.Bytes(32)
	kb[0] &= 0x7f
	kb[1] |= 1
	key, err := ethcrypto.ToECDSA(kb)
	if err != nil {
		return nil, err.Error()
	}
	chainID := big.NewInt(secp256k1eth.GetEvmChainID())
	to := ecommon.BytesToAddress(r.Bytes(20))
	nonce := uint64(r.Intn(1000000))
	value := new(big.Int).Mul(big.NewInt(int64(r.Range(1, 1000000))), big.NewInt(1e10))
	var inner etypes.TxData
	sub := ""
	switch r.Intn(3) {
	case 0:
		sub = "dynamic-fee coins transfer"
		inner = &etypes.DynamicFeeTx{ChainID: chainID, Nonce: nonce, GasTipCap: big.NewInt(1e9), GasFeeCap: big.NewInt(1e10), Gas: uint64(r.Range(21000, 3000000)), To: &to, Value: value}
	case 1:
		sub = "dynamic-fee contract call"
		inner = &etypes.DynamicFeeTx{ChainID: chainID, Nonce: nonce, GasTipCap: big.NewInt(1e9), GasFeeCap: big.NewInt(1e10), Gas: uint64(r.Range(21000, 3000000)), To: &to, Value: big.NewInt(0), Data: r.Bytes(r.Range(4, 100))}
	default:
		sub = "legacy coins transfer"
		inner = &etypes.LegacyTx{Nonce: nonce, GasPrice: big.NewInt(1e10), Gas: uint64(r.Range(21000, 3000000)), To: &to, Value: value}
	}
	stx, err := etypes.SignNewTx(key, etypes.NewLondonSigner(chainID), inner)
	if err != nil {
		return nil, err.Error()
	}
	v, rr, ss := stx.RawSignatureValues()
	cv, err := rpctypes.CaculateRealV(v, stx.ChainId().Uint64(), stx.Type())
	if err != nil {
		return nil, err.Error()
	}
	sig := make([]byte, 65)
	copy(sig[32-len(rr.Bytes()):32], rr.Bytes())
	copy(sig[64-len(ss.Bytes()):64], ss.Bytes())
	sig[64] = cv
	tx := rpctypes.AssembleChain33Tx(stx, sig, ethcrypto.FromECDSAPub(&key.PublicKey), nodeCfg)
	if tx == nil {
		return nil, "AssembleChain33Tx returned nil"
	}
	tx.Expire = 4102444800 + int64(r.Intn(1000)) // AssembleChain33Tx uses the wall clock here; pinned for determinism
	return tx, sub
}

func genTx(r *lib.Rng, kind string, chainID int32) *types.Transaction {
	tx := &types.Transaction{Execer: []byte(lib.Pick(r, []string{"coins", "token", "none", "user.write", "user.p.game.coins", "evm", "user.p.x.evm"})),
		Nonce: r.Int63(), ChainID: chainID, Fee: int64(r.Range(0, 3)) * 100000, To: address.PubKeyToAddr(0, r.Bytes(33))}
	switch r.Intn(4) {
	case 1:
		tx.Expire = int64(r.Range(1, 1000000))
	case 2:
		tx.Expire = 4102444800 + int64(r.Intn(1000))
	case 3:
		tx.Expire = types.TxHeightFlag + int64(r.Range(1, 1000000))
	}
	if r.Chance(15) {
		tx.To = ""
	}
	if r.Chance(15) {
		tx.ChainID = 0
	}
	switch kind {
	case "undecodable":
		tx.Payload = r.Bytes(r.Range(1, 300))
		tx.Payload[0] = 0xff
	case "random", "group-member", "group-head":
		tx.Payload = r.Bytes(r.Range(1, 300))
	case "empty":
	case "coins-transfer", "coins-transfer-note":
		tr := &types.AssetsTransfer{Amount: int64(r.Range(1, 1000000)), To: tx.To}
		if kind == "coins-transfer-note" {
			tr.Note = []byte(lib.Pick(r, []string{"hello", "invoice 42", "x"}))
		}
		tx.Execer = []byte(lib.Pick(r, []string{"coins", "user.p.game.coins"}))
		tx.Payload = types.Encode(&cty.CoinsAction{Value: &cty.CoinsAction_Transfer{Transfer: tr}, Ty: cty.CoinsActionTransfer})
	}
	return tx
}

func (s *cstate) txCase(idx int, driver string, addrID int32) {
	cfg := s.ci.Cfg
	r := s.ctx.CaseRng("tx-"+cfg.Name, idx)
	signer := txmut.NewSigner(r, driver)
	other := txmut.NewSigner(r, driver)
	kind := payloadKinds[idx%len(payloadKinds)]
	if kind == "eth-wrapped" && (driver != "secp256k1eth" || !cfg.Init) {
		kind = "random" // the wrapped form exists for secp256k1eth only; without crypto.Init the driver's chain id / precision are unset
	}
	tx := genTx(r, kind, 33)
	wrapped := kind == "eth-wrapped"
	if wrapped {
		var sub string
		if tx, sub = ethWrapped(r); tx == nil {
			s.count("eth_wrapped_build_failed:"+sub, 1)
			return
		}
		s.seen("eth_wrapped_kinds", sub)
	}
	if kind == "group-member" || kind == "group-head" {
		// header / next / groupCount populated by the client library
		g, err := types.CreateTxGroup([]*types.Transaction{tx, genTx(r, "random", 33), genTx(r, "random", 33)}, 100000)
		if err != nil {
			s.count("group_build_failed", 1)
			return
		}
		if kind == "group-member" {
			tx = g.Txs[1]
		} else {
			tx = g.Txs[0]
		}
	}
	ty := signer.Ty(addrID)
	if wrapped {
		ty = tx.Signature.Ty // signed by the ethereum key inside ethWrapped
	} else {
		tx.Sign(ty, signer.Priv)
	}
	wit := func(extra map[string]any) map[string]any {
		m := map[string]any{"driver": driver, "address_id": addrID, "payload_kind": kind, "signed_tx_hex": hex.EncodeToString(types.Encode(tx)), "config": cfg}
		for k, v := range extra {
			m[k] = v
		}
		return m
	}
	s.count("transactions", 1)
	s.seen("payload_kinds", kind)
	snapshot := txmut.CloneTx(tx)
	h0 := append([]byte(nil), tx.Hash()...)
	f0 := append([]byte(nil), tx.FullHash()...)

	// ---- clone preserves hash, full hash and every field
	for name, cl := range map[string]*types.Transaction{"Clone": tx.Clone(), "CloneTx": types.CloneTx(tx)} {
		if !bytes.Equal(cl.Hash(), h0) {
			s.violate(idx, "clone-changes-hash:"+name, wit(nil), "%s() changes Hash: %x -> %x", name, h0, cl.Hash())
		}
		if !bytes.Equal(cl.FullHash(), f0) {
			s.violate(idx, "clone-changes-fullhash:"+name, wit(nil), "%s() changes FullHash: %x -> %x", name, f0, cl.FullHash())
		}
		if !proto.Equal(cl, snapshot) {
			s.violate(idx, "clone-drops-field:"+name, wit(map[string]any{"clone_hex": hex.EncodeToString(types.Encode(cl))}), "%s() is not field-wise equal to the original", name)
		}
		s.count("clone_checks", 1)
	}
	if !proto.Equal(tx, snapshot) || !bytes.Equal(tx.Hash(), h0) || !bytes.Equal(tx.FullHash(), f0) {
		s.violate(idx, "hashing-mutates-tx", wit(nil), "Hash/FullHash/Clone modified the transaction or are not repeatable")
	}

	// ---- the honest signature verifies exactly at the heights where the type is enabled
	var hEnabled int64 = -1
	verified := false
	for _, h := range cfg.heights(driver) {
		ok, pan := checkSign(tx, h)
		en := cfg.enabledAt(driver, h)
		switch {
		case en && !ok:
			s.violate(idx, "honest-rejected:"+driver+":"+kind, wit(map[string]any{"height": h, "panic": pan}), "honest %s signature (payload %s) does not verify at height %d where the type is enabled (panic=%q)", driver, kind, h, pan)
		case en:
			s.count("honest_signature_verified", 1)
			verified = true
			if hEnabled < 0 || r.Chance(30) {
				hEnabled = h
			}
		case ok:
			s.violate(idx, "verifies-when-disabled:"+driver, wit(map[string]any{"height": h}), "%s signature verifies at height %d where the type is disabled", driver, h)
		default:
			s.count("disabled_height_rejections", 1)
		}
	}

	// ---- per-field mutations enumerated from the descriptor
	var hashChanged, hashKept, rejected int64
	judgeSig := func(mt *types.Transaction, path, mkind string, mustFail bool) {
		if hEnabled < 0 || !verified {
			return
		}
		ok, pan := checkSign(mt, hEnabled)
		if pan != "" {
			s.count("CheckSign_panics_on_mutants", 1)
			s.seen("CheckSign_panic_sites", driver+":"+path+":"+mkind)
		}
		if !mustFail {
			if ok {
				s.count("signature_ty_mutants_still_verifying(no verdict)", 1)
			}
			return
		}
		if ok {
			shape := "verifies-after-mutation:" + path + ":" + mkind + ":" + driver
			if wrapped {
				shape = "verifies-after-mutation:eth-wrapped:" + path + ":" + mkind
			}
			s.violate(idx, shape, wit(map[string]any{"height": hEnabled, "mutation": path + ":" + mkind, "mutant_tx_hex": hex.EncodeToString(types.Encode(mt))}),
				"%s signature still verifies at height %d after mutation %s:%s", driver, hEnabled, path, mkind)
		} else {
			rejected++
		}
	}
	for _, mu := range txmut.FieldMutations(r, tx) {
		mt := mu.Apply(tx)
		top := strings.SplitN(mu.Path, ".", 2)[0]
		s.seen("mutated_fields", mu.Path)
		s.seen("mutation_kinds", mu.Kind)
		hm := mt.Hash()
		if top == "signature" || top == "header" {
			if !bytes.Equal(hm, h0) {
				s.violate(idx, "hash-changed:"+top, wit(map[string]any{"mutation": mu.String()}), "Hash changes under mutation %s of the %s", mu, top)
			} else {
				hashKept++
			}
		} else {
			if bytes.Equal(hm, h0) {
				s.violate(idx, "hash-unchanged:"+top, wit(map[string]any{"mutation": mu.String(), "mutant_tx_hex": hex.EncodeToString(types.Encode(mt))}), "Hash does not change under mutation %s", mu)
			} else {
				hashChanged++
			}
		}
		if bytes.Equal(mt.FullHash(), f0) {
			s.count("fullhash_unchanged_under_mutation(no verdict)", 1)
		}
		judgeSig(mt, mu.Path, mu.Kind, mu.Path != "signature.ty")
	}
	// ---- byte-level signature / public key mutations
	sig := tx.Signature.Signature
	pub := tx.Signature.Pubkey
	other2 := txmut.CloneTx(tx)
	other2.Nonce++
	other2.Sign(ty, signer.Priv)
	other3 := txmut.CloneTx(tx)
	other3.Sign(ty, other.Priv)
	if wrapped {
		s.count("eth_wrapped_transactions", 1)
	}
	rev := func(b []byte) []byte {
		o := make([]byte, len(b))
		for i := range b {
			o[len(b)-1-i] = b[i]
		}
		return o
	}
	fill := func(n int, v byte) []byte { return bytes.Repeat([]byte{v}, n) }
	half := len(sig) / 2
	sigMuts := map[string][]byte{
		"zeroed": fill(len(sig), 0), "all-ff": fill(len(sig), 0xff), "empty": {}, "reversed": rev(sig),
		"halves-swapped": append(append([]byte(nil), sig[half:]...), sig[:half]...), "doubled": append(append([]byte(nil), sig...), sig...),
		"same-key-other-message": other2.Signature.Signature, "other-key-same-message": other3.Signature.Signature,
		"first-byte-dropped": sig[1:], "prefixed-zero": append([]byte{0}, sig...),
	}
	for k, b := range sigMuts {
		if bytes.Equal(b, sig) {
			continue
		}
		mt := txmut.CloneTx(tx)
		mt.Signature.Signature = b
		judgeSig(mt, "signature.signature", k, true)
	}
	pubMuts := map[string][]byte{
		"zeroed": fill(len(pub), 0), "all-ff": fill(len(pub), 0xff), "empty": {}, "reversed": rev(pub),
		"other-key": other3.Signature.Pubkey, "doubled": append(append([]byte(nil), pub...), pub...), "prefixed-zero": append([]byte{0}, pub...),
	}
	for k, b := range pubMuts {
		if bytes.Equal(b, pub) {
			continue
		}
		mt := txmut.CloneTx(tx)
		mt.Signature.Pubkey = b
		judgeSig(mt, "signature.pubkey", k, true)
	}
	s.count("mutants_rejected_by_CheckSign", rejected)
	s.count("hash_changed_as_required", hashChanged)
	s.count("hash_unchanged_as_required", hashKept)
	var sample any
	if idx%97 == 0 {
		sample = map[string]any{"config": cfg.Name, "driver": driver, "address_id": addrID, "payload": kind, "verified_at": hEnabled, "hash_changing_mutants": hashChanged, "hash_preserving_mutants": hashKept, "mutants_rejected_by_CheckSign": rejected}
	}
	s.mu.Lock()
	s.out.Cases = append(s.out.Cases, caseRec{FP: lib.Fingerprint([]string{hex.EncodeToString(h0), driver, cfg.Name}), Nontrivial: verified && hashChanged > 0 && hashKept > 0 && rejected >= 20, Sample: sample})
	s.mu.Unlock()
}
