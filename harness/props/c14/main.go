// C14: local indexes are exactly undone when a block is removed.
package main

import (
	"encoding/json"
	"fmt"
	"sort"
	"strings"
	"time"

	"verifharness/chainenv"
	"verifharness/lib"
)

type diff struct {
	Kind, Class, Key, Was, Now string
}

type cse struct {
	Index   int      `json:"index"`
	Kinds   []string `json:"kinds"`
	NTx     int      `json:"ntx"`
	Changed int      `json:"records_changed_by_add"`
	Diffs   []diff   `json:"diffs"`
	QDiffs  []string `json:"query_diffs"`
	Err     string   `json:"err"`
}

// shape of a raw difference set: sorted distinct "<kind>:<class>" (+ value hint for counters left at zero)
func shapeOf(ds []diff) string {
	m := map[string]bool{}
	for _, d := range ds {
		s := d.Kind + ":" + d.Class
		m[s] = true
	}
	var l []string
	for k := range m {
		l = append(l, k)
	}
	sort.Strings(l)
	return strings.Join(l, "+")
}

// split separates leftover records with an EMPTY value (chain33's local-database convention: empty value =
// deleted; every local get/list answers "not found"/0 for them, so no local query result differs) from real differences.
func split(ds []diff) (real []diff, tombstones int) {
	for _, d := range ds {
		if d.Kind == "added" && d.Now == "" {
			tombstones++
			continue
		}
		real = append(real, d)
	}
	return
}

func run(c *lib.Ctx) {
	c.Rule("node with txindex, addrindex, addrfeeindex and fee plugins; on generated chains (3-9 prior blocks) generated blocks (transfers to recurring/fresh addresses, self-transfers, two transfers to one receiver, failing transfers, transfer-to-exec, withdraw, none, groups) are executed, " +
		"then the block's local-index updates are applied (BlockStore.AddTxs: real EventAddBlock in the executor) and removed (DelTxs: real EventDelBlock); the raw local database (= answers of the local get/list query surface for every key) and the chain-level queries " +
		"(tx by hash, address overview, address tx lists in both directions and all flags) must equal the state before. A second stratum does the same through a real reorganisation (node fed trunk+B then a heavier branch vs node fed only trunk+heavier branch). " +
		"non-trivial = the add changed >=1 record (measured); distinct = (history, block index)")
	c.Assume("stat plugin off (needs ticket consensus data); manage executor transactions not generated (no super-manager key in the default config)",
		"executor mvcc plugin off: on this tree it cannot run from genesis (version 0 is stored as an empty value that the local database reads as not-found, StateDB.enableMVCC panics at height 1); the multi-version clause is covered at the data-structure level by C09")
	nh := c.N(8, 200)
	per := c.N(12, 25)
	lib.Parallel(nh, 12, func(i int) {
		if c.Skip(i) {
			return
		}
		rng := c.CaseRng("hist", i)
		seed := rng.U64()
		cr := c.Child("c14", map[string]any{"seed": seed, "n": per}, lib.ChildOpts{Timeout: 10 * time.Minute})
		if cr.TimedOut || cr.Died {
			c.Inconclusive("history %d: child failed: %.400s", i, cr.Stderr)
			return
		}
		var cs []cse
		if err := json.Unmarshal(cr.Out, &cs); err != nil {
			c.Inconclusive("history %d: %v", i, err)
			return
		}
		for _, k := range cs {
			if k.Err != "" {
				c.Count("cases_skipped_build_error", 1)
				continue
			}
			c.Case(fmt.Sprintf("%d/%d", i, k.Index), k.Changed > 0, map[string]any{"history": i, "block": k.Index, "kinds": k.Kinds, "ntx": k.NTx, "records_changed_by_add": k.Changed})
			c.Count("records_changed_by_add", int64(k.Changed))
			c.Count("add_del_cycles", 1)
			for _, kind := range k.Kinds {
				c.Seen("tx_kinds", kind)
			}
			real, tomb := split(k.Diffs)
			c.Count("empty_valued_leftover_records(nondeciding)", int64(tomb))
			k.Diffs = real
			if len(k.Diffs) > 0 || len(k.QDiffs) > 0 {
				c.Violation(i, "adddel/"+shapeOf(k.Diffs), map[string]any{"history_seed": seed, "block": k.Index, "kinds": k.Kinds, "raw_diffs": k.Diffs, "query_diffs": k.QDiffs},
					"history %d block %d (%v): after add+del %d raw records differ (%s); query differences: %v", i, k.Index, k.Kinds, len(k.Diffs), shapeOf(k.Diffs), k.QDiffs)
			}
		}
	})
	nr := c.N(6, 150)
	lib.Parallel(nr, 12, func(i int) {
		idx := 100000 + i
		if c.Skip(idx) {
			return
		}
		rng := c.CaseRng("reorg", i)
		seed := rng.U64()
		cr := c.Child("c14reorg", seed, lib.ChildOpts{Timeout: 10 * time.Minute})
		if cr.TimedOut || cr.Died {
			c.Inconclusive("reorg history %d: child failed: %.400s", i, cr.Stderr)
			return
		}
		var rr struct {
			Diffs   []diff   `json:"diffs"`
			Removed int      `json:"blocks_removed"`
			Kinds   []string `json:"kinds"`
		}
		if err := json.Unmarshal(cr.Out, &rr); err != nil {
			c.Inconclusive("reorg history %d: %v", i, err)
			return
		}
		c.Case(fmt.Sprintf("reorg/%d", i), rr.Removed > 0, map[string]any{"reorg_history": i, "blocks_removed": rr.Removed, "kinds": rr.Kinds})
		c.Count("reorg_blocks_removed", int64(rr.Removed))
		real, tomb := split(rr.Diffs)
		c.Count("empty_valued_leftover_records(nondeciding)", int64(tomb))
		rr.Diffs = real
		if len(rr.Diffs) > 0 {
			c.Violation(idx, "reorg/"+shapeOf(rr.Diffs), map[string]any{"history_seed": seed, "kinds": rr.Kinds, "raw_diffs": rr.Diffs},
				"reorg history %d (%v): node that connected and removed %d block(s) differs from a node that never saw them in %d records (%s), e.g. %+v", i, rr.Kinds, rr.Removed, len(rr.Diffs), shapeOf(rr.Diffs), rr.Diffs[0])
		}
	})
	c.RequireEvents("add_del_cycles", 30)
	c.RequireEvents("reorg_blocks_removed", 3)
}

func main() {
	chainenv.RegisterC14Children()
	lib.Main("C14", "exploration", run)
}
