// C30: produced blocks respect size, count and group limits.
//
// A real consensus BaseClient (system/consensus/base.go) is built on a harness queue for a handful of chain
// configurations whose parameter forks (ForkChainParamV1/V2 -> maxTxNumber), ForkAccountBlacklist and ForkTxHeight
// lie at small heights. Generated pool outputs (single transactions and groups in the form the pool hands them out:
// head copy carrying the encoded group) are pushed through the real AddTxsToBlock, generated expanded blocks through
// the real CheckTxExpire, and the resulting block.Txs is checked by a predicate written from the property statement
// using only the generator's ground truth (member lists, encoded sizes measured at generation time, which accounts
// are blacklisted, the per-height limit of the generated configuration).
package main

import (
	"crypto/sha256"
	"fmt"
	"os"
	"sort"
	"strings"
	"sync"

	"github.com/golang/protobuf/proto"

	"github.com/33cn/chain33/common/address"
	"github.com/33cn/chain33/common/crypto"
	clog "github.com/33cn/chain33/common/log"
	"github.com/33cn/chain33/queue"
	_ "github.com/33cn/chain33/system/address" // btc + eth address drivers
	consensus "github.com/33cn/chain33/system/consensus"
	_ "github.com/33cn/chain33/system/crypto/init"
	"github.com/33cn/chain33/types"
	"verifharness/lib"
)

// ---------------------------------------------------------------------------------------------
// configurations

const never = int64(-1) // fork height "never" in the TOML

type profile struct {
	Name            string
	N0, N1, N2      int64 // maxTxNumber: base, from ForkChainParamV1, from ForkChainParamV2
	H1, H2, HBL, HT int64 // heights of ForkChainParamV1, ForkChainParamV2, ForkAccountBlacklist, ForkTxHeight

	cfg *types.Chain33Config
	bc  *consensus.BaseClient
}

var profiles = []*profile{
	{Name: "small", N0: 7, N1: 23, N2: 61, H1: 10, H2: 20, HBL: 15, HT: 12},
	{Name: "mid", N0: 120, N1: 230, N2: 300, H1: 5, H2: 9, HBL: 7, HT: 3},
	{Name: "wide", N0: 10000, N1: 10000, N2: 10000, H1: 50, H2: 150, HBL: 100, HT: 60},
	{Name: "shrink", N0: 40, N1: 41, N2: 39, H1: 1000, H2: 1001, HBL: never, HT: 1000},
	{Name: "same", N0: 15, N1: 33, N2: 18, H1: 30, H2: 30, HBL: 30, HT: 30},
	{Name: "early", N0: 2, N1: 3, N2: 211, H1: 2, H2: 3, HBL: 1, HT: 1},
}

// limit is the per-height transaction-count limit of the generated configuration: the value of the latest
// parameter fork that is active at h (both forks define maxTxNumber); at equal heights the later-named fork wins.
func (p *profile) limit(h int64) int64 {
	n := p.N0
	best, bestName := int64(-1), ""
	for _, f := range []struct {
		h    int64
		name string
		n    int64
	}{{p.H1, "ForkChainParamV1", p.N1}, {p.H2, "ForkChainParamV2", p.N2}} {
		if h >= f.h && (f.h > best || (f.h == best && f.name > bestName)) {
			best, bestName, n = f.h, f.name, f.n
		}
	}
	return n
}

func (p *profile) blacklistActive(h int64) bool { return p.HBL != never && h >= p.HBL }
func (p *profile) txHeightActive(h int64) bool  { return h >= p.HT }

// heights returns the heights explored for this profile: around every parameter/fork change, plus 1 and far beyond.
func (p *profile) heights() []int64 {
	set := map[int64]bool{1: true}
	for _, h := range []int64{p.H1, p.H2, p.HBL, p.HT} {
		if h == never {
			continue
		}
		for _, d := range []int64{-1, 0, 1} {
			if h+d >= 1 {
				set[h+d] = true
			}
		}
	}
	max := p.H2
	if p.H1 > max {
		max = p.H1
	}
	set[max+1000] = true
	var hs []int64
	for h := range set {
		hs = append(hs, h)
	}
	sort.Slice(hs, func(i, j int) bool { return hs[i] < hs[j] })
	return hs
}

func (p *profile) cfgString() string {
	s := types.GetDefaultCfgstring()
	rep := func(old, new string) {
		if !strings.Contains(s, old) {
			panic("c30: default config no longer contains " + old)
		}
		s = strings.Replace(s, old, new, 1)
	}
	rep("Title=\"local\"", "Title=\"verifc30\"\ndisableForkCheck=true")
	rep("powLimitBits = \"0x1f00ffff\"\nmaxTxNumber = 10000", fmt.Sprintf("powLimitBits = \"0x1f00ffff\"\nmaxTxNumber = %d", p.N0))
	rep("[mver.consensus.ForkChainParamV1]\nmaxTxNumber = 10000", fmt.Sprintf("[mver.consensus.ForkChainParamV1]\nmaxTxNumber = %d", p.N1))
	rep("[mver.consensus.ForkChainParamV2]\npowLimitBits = \"0x1f2fffff\"", fmt.Sprintf("[mver.consensus.ForkChainParamV2]\npowLimitBits = \"0x1f2fffff\"\nmaxTxNumber = %d", p.N2))
	s += fmt.Sprintf("\n[fork.system]\nForkChainParamV1=%d\nForkChainParamV2=%d\nForkAccountBlacklist=%d\nForkTxHeight=%d\n"+
		"ForkBlockCheck=0\nForkTxGroup=0\nForkTxGroupPara=0\nForkCheckTxDup=0\nForkBlockHash=1\nForkRootHash=1\n", p.H1, p.H2, p.HBL, p.HT)
	return s
}

var cfgMu sync.Mutex

func (p *profile) build() {
	cfgMu.Lock()
	defer cfgMu.Unlock()
	p.cfg = types.NewChain33Config(p.cfgString())
	q := queue.New("channel")
	q.SetConfig(p.cfg)
	p.bc = consensus.NewBaseClient(p.cfg.GetModuleConfig().Consensus)
	p.bc.InitClient(q.Client(), func() {})
}

// ---------------------------------------------------------------------------------------------
// accounts

type key struct {
	Pub  []byte
	Addr string
}

func newKey(ns string, i int) *key {
	seed := sha256.Sum256([]byte(fmt.Sprintf("verif-c30-key|%s|%d", ns, i)))
	c, err := crypto.Load(types.GetSignName("", types.SECP256K1), -1)
	if err != nil {
		panic(err)
	}
	priv, err := c.PrivKeyFromBytes(seed[:])
	if err != nil {
		panic(err)
	}
	pub := priv.PubKey().Bytes()
	return &key{Pub: pub, Addr: address.PubKeyToAddr(types.ExtractAddressID(types.SECP256K1), pub)}
}

var (
	goodKeys  []*key
	blackKeys []*key
	bigBuf    []byte
	fakeSig   []byte
)

func setupAccounts() {
	for i := 0; i < 8; i++ {
		goodKeys = append(goodKeys, newKey("good", i))
	}
	var addrs []string
	for i := 0; i < 3; i++ {
		k := newKey("black", i)
		blackKeys = append(blackKeys, k)
		addrs = append(addrs, k.Addr)
	}
	types.SetBlockedAccountsForTest(addrs)
	bigBuf = make([]byte, types.MaxTxSize+1024)
	r := lib.NewRng(0xc30)
	for i := range bigBuf {
		bigBuf[i] = byte(r.U64())
	}
	fakeSig = r.Bytes(65)
}

// ---------------------------------------------------------------------------------------------
// generated transactions (ground truth kept beside the real object)

type gtx struct {
	Tx    *types.Transaction
	Size  int  // length of the wire encoding, measured by encoding at generation time
	Black int  // 0 no, 1 sender blacklisted, 2 receiver blacklisted
	Exp   bool // expired at the case's (height, blocktime) by the generator's rule (CheckTxExpire cases)
	Kind  string
}

type unit struct {
	Members []*gtx             // 1 = single
	Pool    *types.Transaction // the form handed out by the pool
	Noise   string             // malformed pool entry kinds (not part of any deciding clause except atomicity)
}

func (u *unit) black() bool {
	for _, m := range u.Members {
		if m.Black != 0 {
			return true
		}
	}
	return false
}
func (u *unit) size() int {
	s := 0
	for _, m := range u.Members {
		s += m.Size
	}
	return s
}

type gen struct {
	rng   *lib.Rng
	nonce int64
}

func encLen(m proto.Message) int { return len(types.Encode(m)) }

// rawTx builds one transaction with a payload of n bytes. black: 0 none, 1 from, 2 to.
func (g *gen) rawTx(n int, black int, expire int64) *gtx {
	g.nonce++
	from := lib.Pick(g.rng, goodKeys)
	to := lib.Pick(g.rng, goodKeys).Addr
	switch black {
	case 1:
		from = lib.Pick(g.rng, blackKeys)
	case 2:
		to = lib.Pick(g.rng, blackKeys).Addr
	}
	if n < 0 {
		n = 0
	}
	if n > len(bigBuf) {
		n = len(bigBuf)
	}
	off := 0
	if n < len(bigBuf) {
		off = g.rng.Intn(len(bigBuf) - n + 1)
	}
	tx := &types.Transaction{Execer: []byte("user.write"), Payload: bigBuf[off : off+n : off+n], Fee: 100000 + int64(g.rng.Intn(1000)),
		Expire: expire, Nonce: g.nonce<<20 | int64(g.rng.Intn(1<<20)), To: to, ChainID: 33,
		Signature: &types.Signature{Ty: types.SECP256K1, Pubkey: from.Pub, Signature: fakeSig}}
	return &gtx{Tx: tx, Black: black}
}

// resize changes the payload so that the wire size of tx becomes exactly want (returns false when unreachable).
func (g *gen) resize(t *gtx, want int) bool {
	for k := 0; k < 6; k++ {
		cur := encLen(t.Tx)
		if cur == want {
			return true
		}
		n := len(t.Tx.Payload) + want - cur
		if n < 0 || n > len(bigBuf) {
			return false
		}
		t.Tx.Payload = bigBuf[:n:n]
	}
	return encLen(t.Tx) == want
}

func (g *gen) single(n int, black int, expire int64) *unit {
	t := g.rawTx(n, black, expire)
	t.Size = encLen(t.Tx)
	return &unit{Members: []*gtx{t}, Pool: t.Tx}
}

// link turns members into a transaction group (same linking as types.CreateTxGroup: GroupCount, Header, Next, fee on the
// head) and measures the members.
func link(ms []*gtx) *types.Transactions {
	grp := &types.Transactions{}
	for i, m := range ms {
		m.Tx.GroupCount = int32(len(ms))
		m.Tx.Header, m.Tx.Next = nil, nil
		if i > 0 {
			m.Tx.Fee = 0
		}
		grp.Txs = append(grp.Txs, m.Tx)
	}
	grp.RebuiltGroup()
	for _, m := range ms {
		m.Size = encLen(m.Tx)
	}
	return grp
}

// group builds a group of len(sizes) members; blackPos/blackKind mark one blacklisted member (-1 none).
func (g *gen) group(payloads []int, blackPos, blackKind int, expires []int64) *unit {
	var ms []*gtx
	for i, n := range payloads {
		b := 0
		if i == blackPos {
			b = blackKind
		}
		var e int64
		if expires != nil {
			e = expires[i]
		}
		ms = append(ms, g.rawTx(n, b, e))
	}
	grp := link(ms)
	return &unit{Members: ms, Pool: grp.Tx()}
}

// groupTotal builds a group whose members' wire sizes sum to exactly total (false if it could not be reached).
func (g *gen) groupTotal(n int, total int, blackPos, blackKind int) (*unit, bool) {
	per := total / n
	if per < 400 || per > types.MaxTxSize-200 {
		return nil, false
	}
	payloads := make([]int, n)
	for i := range payloads {
		payloads[i] = per - 330
	}
	var ms []*gtx
	for i, pl := range payloads {
		b := 0
		if i == blackPos {
			b = blackKind
		}
		ms = append(ms, g.rawTx(pl, b, 0))
	}
	link(ms)
	// spread the remainder: every member but the last gets size per, the last one the rest
	sum := 0
	for i := 0; i < n-1; i++ {
		if !g.resize(ms[i], per) {
			return nil, false
		}
		sum += per
	}
	if !g.resize(ms[n-1], total-sum) {
		return nil, false
	}
	grp := link(ms)
	if s := (&unit{Members: ms}).size(); s != total {
		return nil, false
	}
	return &unit{Members: ms, Pool: grp.Tx()}, true
}

// ---------------------------------------------------------------------------------------------
// AddTxsToBlock cases

type addCase struct {
	Idx     int
	Prof    *profile
	Height  int64
	Class   string
	Initial []*gtx
	Units   []*unit
	Note    string
}

const reserve = 100000 // bytes AddTxsToBlock keeps free for the transactions the consensus adds itself

func baseBlock(h int64, rng *lib.Rng) *types.Block {
	return &types.Block{Version: 0, ParentHash: rng.Bytes(32), Height: h, BlockTime: 1600000000 + h, Difficulty: 0x1f00ffff}
}

func smallPayload(rng *lib.Rng) int { return rng.Range(0, 300) }

func (g *gen) smallUnit(blackPct int) *unit {
	rng := g.rng
	black, kind := rng.Chance(blackPct), 0
	if black {
		kind = 1 + rng.Intn(2)
	}
	if rng.Chance(35) {
		n := rng.Range(2, 20)
		if rng.Chance(25) {
			n = lib.Pick(rng, []int{2, 3, 19, 20})
		}
		pl := make([]int, n)
		for i := range pl {
			pl[i] = smallPayload(rng)
		}
		pos := -1
		if black {
			pos = lib.Pick(rng, []int{0, n - 1, n / 2, rng.Intn(n)})
		}
		return g.group(pl, pos, kind, nil)
	}
	return g.single(smallPayload(rng), kind, 0)
}

func (g *gen) noiseUnit() *unit {
	rng := g.rng
	switch rng.Intn(3) {
	case 0: // group count 1 is not a valid pool entry
		u := g.single(smallPayload(rng), 0, 0)
		u.Pool.GroupCount = 1
		u.Noise = "groupcount-1"
		u.Members[0].Size = encLen(u.Pool)
		return u
	case 1: // group count above the maximum
		u := g.single(smallPayload(rng), 0, 0)
		u.Pool.GroupCount = 21
		u.Noise = "groupcount-21"
		u.Members[0].Size = encLen(u.Pool)
		return u
	default: // a "group" whose header does not decode
		u := g.single(smallPayload(rng), 0, 0)
		u.Pool.GroupCount = 2
		u.Pool.Header = []byte{0xff, 0xff, 0xff, 0x01}
		u.Noise = "header-garbage"
		u.Members[0].Size = encLen(u.Pool)
		return u
	}
}

func genAddCase(c *lib.Ctx, idx int) *addCase {
	rng := c.CaseRng("add", idx)
	g := &gen{rng: rng}
	ac := &addCase{Idx: idx}
	classes := []string{"count", "count", "count", "size", "size", "both", "random", "black"}
	ac.Class = classes[idx%len(classes)]
	switch ac.Class {
	case "size":
		ac.Prof = lib.Pick(rng, []*profile{profiles[2], profiles[2], profiles[1], profiles[5]})
	case "both":
		ac.Prof = profiles[1]
	case "black":
		ac.Prof = lib.Pick(rng, []*profile{profiles[0], profiles[1], profiles[4], profiles[5], profiles[2]})
	default:
		ac.Prof = lib.Pick(rng, []*profile{profiles[0], profiles[0], profiles[1], profiles[3], profiles[4], profiles[5]})
	}
	p := ac.Prof
	ac.Height = lib.Pick(rng, p.heights())
	if ac.Class == "both" {
		ac.Height = lib.Pick(rng, []int64{5, 6, 8, 9, 10, 1009}) // limit 230 or 300
	}
	if ac.Class == "size" && p.limit(ac.Height) < 210 {
		// the size bound needs >= 199 transactions of the maximum size: take a height whose limit allows it
		for _, h := range p.heights() {
			if p.limit(h) >= 210 {
				ac.Height = h
			}
		}
	}
	limit := p.limit(ac.Height)
	// transactions the consensus already put into the block (e.g. a miner transaction)
	for k := rng.Intn(3); k > 0 && int64(len(ac.Initial)) < limit; k-- {
		t := g.rawTx(smallPayload(rng), 0, 0)
		t.Size = encLen(t.Tx)
		ac.Initial = append(ac.Initial, t)
	}
	blackPct := 0
	if ac.Class == "black" {
		blackPct = 40
	} else if rng.Chance(50) {
		blackPct = 8
	}

	switch ac.Class {
	case "count", "black":
		// cumulative member count crosses the limit at a boundary unit: a single, or a group straddling it
		room := int(limit) - len(ac.Initial)
		d := lib.Pick(rng, []int{-1, 0, 0, 1, 1, 2})
		count := 0
		target := room + d
		if room > 400 { // wide limits: do not build thousands of transactions, stay random
			target = rng.Range(20, 200)
		}
		for count < target {
			var u *unit
			left := target - count
			if rng.Chance(4) {
				u = g.noiseUnit()
				ac.Units = append(ac.Units, u)
				continue
			}
			u = g.smallUnit(blackPct)
			if len(u.Members) > left+rng.Intn(3) && rng.Chance(70) {
				// shrink overshoot most of the time so that the crossing is by 0..2 members
				u = g.single(smallPayload(rng), 0, 0)
			}
			ac.Units = append(ac.Units, u)
			if !u.black() || !p.blacklistActive(ac.Height) {
				count += len(u.Members)
			}
		}
		// boundary variants: a group that straddles the limit by j members
		if rng.Chance(60) && room <= 400 {
			gsz := rng.Range(2, 20)
			pl := make([]int, gsz)
			for i := range pl {
				pl[i] = smallPayload(rng)
			}
			ac.Units = append(ac.Units, g.group(pl, -1, 0, nil))
		}
		// tail: more units that must not be taken once the limit is reached (or may, if there is room)
		for k := rng.Intn(6); k > 0; k-- {
			ac.Units = append(ac.Units, g.smallUnit(blackPct))
		}
	case "size", "both":
		blk := baseBlock(ac.Height, rng.Fork())
		for _, t := range ac.Initial {
			blk.Txs = append(blk.Txs, t.Tx)
		}
		room := types.MaxBlockSize - reserve - encLen(blk)
		// big transactions up to ~room-250KB, then a few medium ones, then a boundary unit that lands at room+d
		used, n := 0, 0
		maxUnits := int(limit) - len(ac.Initial)
		if ac.Class == "both" {
			// spend the room so that count and size limits are reached together: limit-ish transactions
			per := room / maxUnits
			for n < maxUnits-rng.Range(2, 6) {
				u := g.single(per-330+rng.Range(-40, 40), 0, 0)
				ac.Units = append(ac.Units, u)
				used += u.size()
				n++
			}
		} else {
			for room-used > 320000 {
				var u *unit
				if rng.Chance(6) {
					gs := rng.Range(2, 6)
					pl := make([]int, gs)
					for i := range pl {
						pl[i] = rng.Range(60000, types.MaxTxSize-400)
					}
					bp, bk := -1, 0
					if rng.Chance(blackPct) {
						bp, bk = rng.Intn(gs), 1+rng.Intn(2)
					}
					u = g.group(pl, bp, bk, nil)
				} else {
					bk := 0
					if rng.Chance(blackPct) {
						bk = 1 + rng.Intn(2)
					}
					u = g.single(rng.Range(types.MaxTxSize-2000, types.MaxTxSize-400), bk, 0)
				}
				ac.Units = append(ac.Units, u)
				if !u.black() || !p.blacklistActive(ac.Height) {
					used += u.size()
					n += len(u.Members)
				}
			}
		}
		d := lib.Pick(rng, []int{-1, 0, 0, 1, 1, 2, 7, -3, 300})
		want := room - used + d
		var bu *unit
		ok := false
		if rng.Chance(55) {
			// boundary group: prefix of members fits, whole group lands at room+d
			gs := rng.Range(2, 20)
			if want/gs >= 2000 && want/gs < types.MaxTxSize-400 {
				bu, ok = g.groupTotal(gs, want, -1, 0)
			}
			if !ok {
				for gs = 2; gs <= 20 && !ok; gs++ {
					if want/gs < types.MaxTxSize-400 && want/gs >= 2000 {
						bu, ok = g.groupTotal(gs, want, -1, 0)
					}
				}
			}
		}
		if !ok {
			// boundary singles: split into transactions below the maximum size, the last one exact
			for want > types.MaxTxSize-400 {
				u := g.single(rng.Range(40000, 60000), 0, 0)
				ac.Units = append(ac.Units, u)
				want -= u.size()
			}
			t := g.rawTx(want-330, 0, 0)
			if g.resize(t, want) {
				t.Size = encLen(t.Tx)
				bu, ok = &unit{Members: []*gtx{t}, Pool: t.Tx}, true
			}
		}
		if ok {
			ac.Units = append(ac.Units, bu)
			ac.Note = fmt.Sprintf("boundary unit of %d members lands at bound%+d", len(bu.Members), d)
		}
		// tail: a big group (would overshoot the hard bound if appended), then small ones
		if rng.Chance(60) {
			gs := rng.Range(2, 20)
			pl := make([]int, gs)
			for i := range pl {
				pl[i] = rng.Range(30000, types.MaxTxSize-400)
			}
			ac.Units = append(ac.Units, g.group(pl, -1, 0, nil))
		}
		for k := rng.Intn(4); k > 0; k-- {
			ac.Units = append(ac.Units, g.smallUnit(blackPct))
		}
	default: // random
		for k := rng.Range(1, 80); k > 0; k-- {
			if rng.Chance(5) {
				ac.Units = append(ac.Units, g.noiseUnit())
			} else {
				ac.Units = append(ac.Units, g.smallUnit(blackPct))
			}
		}
	}
	return ac
}

type addResult struct {
	Shape, Msg string
	// measurements
	Taken, TakenUnits, Fed, FedUnits, Groups int
	SizeSum                                  int
	Limit                                    int64
	AtLimit, OneBelow, SizeExact, SizeNear   bool
	BlackSkipped, BlackFedActive             int
	StoppedEarly                             bool
	StopReason                               string
	StraddleGroup                            bool
	NoiseTaken                               int
}

func sameTx(a *types.Transaction, b *gtx) bool {
	if a == b.Tx {
		return true
	}
	return a != nil && a.Nonce == b.Tx.Nonce && proto.Equal(a, b.Tx)
}

// runAdd executes the real AddTxsToBlock on the case (restricted to the units in keep, nil = all) and evaluates the
// predicate. It returns the first failing clause ("" = all hold).
func runAdd(ac *addCase, keep []bool) (res addResult) {
	p := ac.Prof
	rng := lib.NewRng(uint64(ac.Idx)*7919 + 17)
	blk := baseBlock(ac.Height, rng)
	for _, t := range ac.Initial {
		blk.Txs = append(blk.Txs, t.Tx)
	}
	initLen := encLen(blk)
	var units []*unit
	var in []*types.Transaction
	for i, u := range ac.Units {
		if keep != nil && !keep[i] {
			continue
		}
		units = append(units, u)
		in = append(in, u.Pool)
		res.Fed += len(u.Members)
		if len(u.Members) > 1 {
			res.Groups++
		}
	}
	res.FedUnits = len(units)
	res.Limit = p.limit(ac.Height)
	inCopy := append([]*types.Transaction(nil), in...)

	added := p.bc.AddTxsToBlock(blk, in)

	fail := func(shape, f string, a ...any) addResult {
		res.Shape, res.Msg = shape, fmt.Sprintf(f, a...)
		return res
	}
	// the input list itself is left alone
	for i := range in {
		if in[i] != inCopy[i] {
			return fail("input-modified", "input slot %d was replaced", i)
		}
	}
	// transactions already in the block stay in front, untouched
	if len(blk.Txs) < len(ac.Initial) {
		return fail("prefix-modified", "block lost pre-existing transactions: %d < %d", len(blk.Txs), len(ac.Initial))
	}
	for i, t := range ac.Initial {
		if blk.Txs[i] != t.Tx {
			return fail("prefix-modified", "pre-existing transaction %d was replaced", i)
		}
	}
	taken := blk.Txs[len(ac.Initial):]
	res.Taken = len(taken)
	// (1) order + atomicity: taken must be the concatenation, in input order, of whole units
	pos := 0
	active := p.blacklistActive(ac.Height)
	firstSkipped := -1
	takenAfterSkip := false
	for ui, u := range units {
		if u.black() && active {
			res.BlackFedActive++
		}
		if pos < len(taken) && sameTx(taken[pos], u.Members[0]) {
			for k, m := range u.Members {
				if pos+k >= len(taken) {
					return fail("group-split", "unit %d (%d members): only the first %d members were taken (block ends)", ui, len(u.Members), k)
				}
				if !sameTx(taken[pos+k], m) {
					return fail("group-split", "unit %d (%d members): member %d is not followed by member %d in the block", ui, len(u.Members), k-1, k)
				}
			}
			pos += len(u.Members)
			res.TakenUnits++
			res.SizeSum += u.size()
			if u.Noise != "" {
				res.NoiseTaken++
			}
			if firstSkipped >= 0 {
				takenAfterSkip = true
			}
			// (4) blacklist
			if active && u.black() {
				bp := -1
				for k, m := range u.Members {
					if m.Black != 0 {
						bp = k
					}
				}
				kind := "single"
				if len(u.Members) > 1 {
					kind = "group"
				}
				return fail("blacklisted-taken-"+kind, "unit %d (%s of %d) with blacklisted member %d (%s) taken at height %d, rule active from %d",
					ui, kind, len(u.Members), bp, map[int]string{1: "sender", 2: "receiver"}[u.Members[bp].Black], ac.Height, p.HBL)
			}
		} else {
			if firstSkipped < 0 {
				firstSkipped = ui
			}
			if active && u.black() {
				res.BlackSkipped++
			}
		}
	}
	if pos != len(taken) {
		// the transaction at pos is not the head of any later unit in order: out of order, duplicated, foreign, or a group member
		return fail("order", "block transaction %d (nonce %d) does not continue the input order as a whole unit (%d of %d matched)", pos, taken[pos].Nonce, pos, len(taken))
	}
	// returned list == appended list
	if len(added) != len(taken) {
		return fail("returned-mismatch", "returned %d transactions, appended %d", len(added), len(taken))
	}
	for i := range added {
		if added[i] != taken[i] {
			return fail("returned-mismatch", "returned transaction %d differs from the appended one", i)
		}
	}
	// (2) count
	if int64(len(blk.Txs)) > res.Limit {
		return fail("count-over-limit", "block has %d transactions at height %d, limit %d (profile %s)", len(blk.Txs), ac.Height, res.Limit, p.Name)
	}
	// (3) size: assembly bound (MaxBlockSize minus the reserve) over generator-measured sizes, and the hard bound on the
	// actually encoded block
	if initLen+res.SizeSum > types.MaxBlockSize-reserve {
		return fail("size-over-assembly-bound", "block base %d + taken %d = %d bytes > %d", initLen, res.SizeSum, initLen+res.SizeSum, types.MaxBlockSize-reserve)
	}
	if initLen+res.SizeSum > types.MaxBlockSize-3*reserve || res.SizeSum > 15000000 {
		if n := encLen(blk); n > types.MaxBlockSize {
			return fail("size-over-maxblocksize", "encoded block is %d bytes > %d", n, types.MaxBlockSize)
		}
	}
	// measurements for non-triviality
	res.AtLimit = int64(len(blk.Txs)) == res.Limit
	res.OneBelow = int64(len(blk.Txs)) == res.Limit-1
	res.SizeExact = initLen+res.SizeSum == types.MaxBlockSize-reserve
	res.SizeNear = types.MaxBlockSize-reserve-(initLen+res.SizeSum) < types.MaxTxSize
	res.StoppedEarly = firstSkipped >= 0 && !takenAfterSkip && res.TakenUnits < len(units)
	if firstSkipped >= 0 {
		u := units[firstSkipped]
		switch {
		case active && u.black():
			res.StopReason = "blacklist"
		case u.Noise != "":
			res.StopReason = "noise"
		case int64(len(ac.Initial)+pos0(units, firstSkipped, taken, active)+len(u.Members)) > res.Limit:
			res.StopReason = "count"
			res.StraddleGroup = len(u.Members) > 1 && int64(len(ac.Initial)+pos0(units, firstSkipped, taken, active)) < res.Limit
		default:
			res.StopReason = "size-or-other"
		}
	}
	return res
}

// pos0 = number of members of the units before index i that were taken (recomputed from the walk rules).
func pos0(units []*unit, i int, taken []*types.Transaction, active bool) int {
	pos := 0
	for k := 0; k < i; k++ {
		u := units[k]
		if pos < len(taken) && sameTx(taken[pos], u.Members[0]) {
			pos += len(u.Members)
		}
	}
	return pos
}

// minimise drops units while the same clause keeps failing (bounded number of re-executions).
func minimiseAdd(ac *addCase, shape string) ([]bool, addResult) {
	keep := make([]bool, len(ac.Units))
	for i := range keep {
		keep[i] = true
	}
	best := runAdd(ac, keep)
	budget := 400
	for chunk := len(ac.Units) / 2; chunk >= 1 && budget > 0; chunk /= 2 {
		for s := 0; s < len(ac.Units) && budget > 0; s += chunk {
			saved := append([]bool(nil), keep...)
			any := false
			for k := s; k < s+chunk && k < len(keep); k++ {
				if keep[k] {
					keep[k], any = false, true
				}
			}
			if !any {
				continue
			}
			budget--
			r := runAdd(ac, keep)
			if r.Shape == shape {
				best = r
			} else {
				copy(keep, saved)
			}
		}
	}
	return keep, best
}

type unitDesc struct {
	N     int    `json:"members"`
	Size  int    `json:"bytes"`
	Black string `json:"blacklisted,omitempty"`
	Noise string `json:"noise,omitempty"`
}

func describe(ac *addCase, keep []bool) map[string]any {
	var us []unitDesc
	for i, u := range ac.Units {
		if keep != nil && !keep[i] {
			continue
		}
		d := unitDesc{N: len(u.Members), Size: u.size(), Noise: u.Noise}
		for k, m := range u.Members {
			if m.Black != 0 {
				d.Black = fmt.Sprintf("member %d %s", k, map[int]string{1: "sender", 2: "receiver"}[m.Black])
			}
		}
		us = append(us, d)
	}
	if len(us) > 60 {
		us = append(us[:30], us[len(us)-30:]...)
	}
	return map[string]any{"profile": ac.Prof.Name, "height": ac.Height, "class": ac.Class, "limit": ac.Prof.limit(ac.Height),
		"blacklist_active": ac.Prof.blacklistActive(ac.Height), "initial_txs": len(ac.Initial), "units(first/last 30)": us, "note": ac.Note,
		"forks":       map[string]int64{"ForkChainParamV1": ac.Prof.H1, "ForkChainParamV2": ac.Prof.H2, "ForkAccountBlacklist": ac.Prof.HBL},
		"maxTxNumber": []int64{ac.Prof.N0, ac.Prof.N1, ac.Prof.N2}}
}

// ---------------------------------------------------------------------------------------------
// CheckTxExpire cases

type expCase struct {
	Idx       int
	Prof      *profile
	Height    int64
	BlockTime int64
	Units     []*unit
}

// expired is the generator's expiry rule (from the documented meaning of Transaction.Expire): 0 never; values up to
// ExpireBound are heights (expired once the block height reaches them); values above TxHeightFlag are a TxHeight
// window when ForkTxHeight is active; other values are unix times (expired once the block time reaches them).
func expired(p *profile, e, height, blocktime int64) bool {
	if e == 0 {
		return false
	}
	if e <= types.ExpireBound {
		return e <= height
	}
	if p.txHeightActive(height) && e > types.TxHeightFlag {
		th := e - types.TxHeightFlag
		return !(th-types.LowAllowPackHeight <= height && height <= th+types.HighAllowPackHeight)
	}
	return e <= blocktime
}

func genExpCase(c *lib.Ctx, idx int) *expCase {
	rng := c.CaseRng("expire", idx)
	g := &gen{rng: rng}
	p := lib.Pick(rng, profiles)
	ec := &expCase{Idx: idx, Prof: p}
	hs := p.heights()
	ec.Height = lib.Pick(rng, hs)
	if rng.Chance(40) { // around the TxHeight window edges
		ec.Height = p.HT + lib.Pick(rng, []int64{0, 1, 199, 200, 201, 599, 600, 601, 1000})
	}
	ec.BlockTime = 1600000000 + int64(rng.Intn(1000000))
	h, bt := ec.Height, ec.BlockTime
	live := []int64{0, 0, 0, h + 1, h + 2, bt + 1, bt + 100, types.TxHeightFlag + h, types.TxHeightFlag + h + types.LowAllowPackHeight,
		types.TxHeightFlag + h - types.HighAllowPackHeight, types.ExpireBound}
	dead := []int64{h, h - 1, 1, bt, bt - 1, types.ExpireBound + 1, types.TxHeightFlag + h + types.LowAllowPackHeight + 1,
		types.TxHeightFlag + h - types.HighAllowPackHeight - 1, types.TxHeightFlag + 1}
	pickExp := func(wantDead bool) int64 {
		for k := 0; k < 50; k++ {
			var e int64
			if wantDead {
				e = lib.Pick(rng, dead)
			} else {
				e = lib.Pick(rng, live)
			}
			if e >= 0 && expired(p, e, h, bt) == wantDead {
				return e
			}
		}
		if wantDead {
			return 1 // height-valued, expired at every height >= 1
		}
		return 0
	}
	nUnits := rng.Range(1, 24)
	deadPct := lib.Pick(rng, []int{0, 10, 30, 60, 100})
	for k := 0; k < nUnits; k++ {
		if rng.Chance(50) {
			n := rng.Range(2, 20)
			if rng.Chance(30) {
				n = lib.Pick(rng, []int{2, 3, 20})
			}
			exps := make([]int64, n)
			for i := range exps {
				exps[i] = pickExp(false)
			}
			if rng.Chance(deadPct) {
				// expired members: one at a chosen position (every position is reached over the case list), sometimes several / all
				pos := (idx + k) % n
				exps[pos] = pickExp(true)
				switch rng.Intn(6) {
				case 0:
					for i := range exps {
						exps[i] = pickExp(true)
					}
				case 1:
					exps[rng.Intn(n)] = pickExp(true)
				}
			}
			pl := make([]int, n)
			for i := range pl {
				pl[i] = rng.Intn(40)
			}
			u := g.group(pl, -1, 0, exps)
			for i, m := range u.Members {
				m.Exp = expired(p, exps[i], h, bt)
			}
			ec.Units = append(ec.Units, u)
		} else {
			e := pickExp(rng.Chance(deadPct))
			u := g.single(rng.Intn(40), 0, e)
			u.Members[0].Exp = expired(p, e, h, bt)
			ec.Units = append(ec.Units, u)
		}
	}
	return ec
}

type expResult struct {
	Shape, Msg                             string
	Fed, Kept, GroupsDropped, GroupsKept   int
	SinglesDropped, PartialExpGroups       int
	DroppedLive, LeftExpired               int
	LeftExpiredMsg                         string
	ExpPositions                           []string
	GroupFollowedByExpired, AdjacentGroups bool
}

func runExp(ec *expCase, keep []bool) (res expResult) {
	p := ec.Prof
	var units []*unit
	var in []*types.Transaction
	for i, u := range ec.Units {
		if keep != nil && !keep[i] {
			continue
		}
		units = append(units, u)
		for _, m := range u.Members {
			in = append(in, m.Tx) // a block holds groups expanded
		}
	}
	res.Fed = len(in)
	work := append([]*types.Transaction(nil), in...)
	out := p.bc.CheckTxExpire(work, ec.Height, ec.BlockTime)
	fail := func(shape, f string, a ...any) expResult {
		res.Shape, res.Msg = shape, fmt.Sprintf(f, a...)
		return res
	}
	res.Kept = len(out)
	pos := 0
	for ui, u := range units {
		present := 0
		for k, m := range u.Members {
			if pos < len(out) && out[pos] == m.Tx {
				pos++
				present++
			} else if present > 0 && k > 0 && present == k {
				// member k missing after members 0..k-1 present
			}
		}
		nexp := 0
		for k, m := range u.Members {
			if m.Exp {
				nexp++
				if len(u.Members) > 1 {
					res.ExpPositions = append(res.ExpPositions, fmt.Sprintf("%d/%d", k, len(u.Members)))
				}
			}
		}
		kind := "single"
		if len(u.Members) > 1 {
			kind = "group"
		}
		if present != 0 && present != len(u.Members) {
			return fail("expire-partial-group", "unit %d (group of %d, %d expired members) is left with %d members at height %d blocktime %d",
				ui, len(u.Members), nexp, present, ec.Height, ec.BlockTime)
		}
		if nexp > 0 && present > 0 {
			// an expired unit that is kept WHOLE does not contradict "dropping removes whole groups": recorded, not deciding
			res.LeftExpired++
			if res.LeftExpiredMsg == "" {
				res.LeftExpiredMsg = fmt.Sprintf("%s of %d with %d expired members (expire %v, group header %x) kept whole at height %d blocktime %d",
					kind, len(u.Members), nexp, expiresOf(u), u.Members[0].Tx.Header, ec.Height, ec.BlockTime)
			}
		}
		if nexp == 0 && present == 0 {
			res.DroppedLive++
		}
		if nexp > 0 && present == 0 {
			if len(u.Members) > 1 {
				res.GroupsDropped++
				if nexp < len(u.Members) {
					res.PartialExpGroups++
				}
			} else {
				res.SinglesDropped++
			}
		} else if len(u.Members) > 1 {
			res.GroupsKept++
		}
		if ui+1 < len(units) && len(u.Members) > 1 {
			nx := units[ui+1]
			if len(nx.Members) > 1 {
				res.AdjacentGroups = true
			}
			for _, m := range nx.Members {
				if m.Exp {
					res.GroupFollowedByExpired = true
				}
			}
		}
	}
	if pos != len(out) {
		return fail("expire-order", "result transaction %d does not continue the input order (%d of %d matched)", pos, pos, len(out))
	}
	return res
}

func expiresOf(u *unit) []int64 {
	var e []int64
	for _, m := range u.Members {
		e = append(e, m.Tx.Expire)
	}
	return e
}

func minimiseExp(ec *expCase, shape string) ([]bool, expResult) {
	keep := make([]bool, len(ec.Units))
	for i := range keep {
		keep[i] = true
	}
	best := runExp(ec, keep)
	for i := range keep {
		keep[i] = false
		if r := runExp(ec, keep); r.Shape == shape {
			best = r
		} else {
			keep[i] = true
		}
	}
	return keep, best
}

func describeExp(ec *expCase, keep []bool) map[string]any {
	var us []map[string]any
	for i, u := range ec.Units {
		if keep != nil && !keep[i] {
			continue
		}
		var ex []bool
		for _, m := range u.Members {
			ex = append(ex, m.Exp)
		}
		us = append(us, map[string]any{"members": len(u.Members), "expire": expiresOf(u), "expired": ex})
	}
	return map[string]any{"profile": ec.Prof.Name, "height": ec.Height, "blocktime": ec.BlockTime, "ForkTxHeight": ec.Prof.HT,
		"txheight_window": []int64{types.LowAllowPackHeight, types.HighAllowPackHeight}, "units": us}
}

// ---------------------------------------------------------------------------------------------

const expBase = 1000000 // case index space of the CheckTxExpire cases

func run(c *lib.Ctx) {
	clog.SetLogLevel("crit")
	queue.DisableLog()
	setupAccounts()
	for _, p := range profiles {
		p.build()
	}
	c.Rule("AddTxsToBlock: every case = (configuration profile, height around a parameter/blacklist fork, 0-2 pre-existing block txs, generated pool " +
		"output list) run through the real BaseClient.AddTxsToBlock; classes count (cumulative member count crosses maxTxNumber(height) by -1..+2 " +
		"at a single or straddling group), size (wire sizes engineered so that a boundary single/group lands at the size bound -3..+300 bytes, " +
		"followed by a large group), both, random, black (40% units with a blacklisted sender/receiver at every member position). " +
		"CheckTxExpire: expanded blocks of singles and groups (2-20) with expiry values around (height, blocktime, TxHeight window) and expired " +
		"members at every position. Non-trivial (measured on the result): the block ended exactly at / one below the count limit, or within one " +
		"max-size tx of the size bound, or skipped >=1 blacklisted unit at an active height while taking later units, or a group straddled " +
		"the limit; for expiry: >=1 group dropped because of a proper subset of expired members. Fingerprint = full case descriptor.")
	c.Assume("the block size bound for assembly is types.MaxBlockSize minus the 100000-byte reserve AddTxsToBlock keeps for the transactions the "+
		"consensus adds itself, measured as encoded block before + sum of encoded transaction sizes; the encoded block is additionally checked against types.MaxBlockSize",
		"per-height count limit = mver.consensus.maxTxNumber of the generated TOML under the latest active parameter fork (later fork name wins at equal heights)",
		"pool outputs are well-formed (groups as produced by Transactions.Tx()); a few malformed entries (group count 1/21, undecodable header) are fed as noise and only required to be taken whole or not at all",
		"expiry ground truth follows the documented Expire encoding (0 / height <= ExpireBound / TxHeightFlag window when ForkTxHeight is active / unix time); heights >= 1 and blocktime > 0",
		"blacklisted = sender (signature public key) or receiver (To) is in the set installed with types.SetBlockedAccountsForTest; rule active from ForkAccountBlacklist")

	nAdd := c.N(560, 20000)
	nExp := c.N(600, 20000)
	workers := 12
	var mu sync.Mutex
	classCount := map[string]int{}
	stopReasons := map[string]int{}
	expPos := map[string]struct{}{}
	var leftExpired []string

	lib.Parallel(nAdd, workers, func(i int) {
		if c.Skip(i) {
			return
		}
		defer func() {
			if r := recover(); r != nil {
				c.Violation(i, "panic-add", map[string]any{"index": i}, "AddTxsToBlock case %d panicked: %v", i, r)
			}
		}()
		ac := genAddCase(c, i)
		r := runAdd(ac, nil)
		if r.Shape != "" {
			keep, mr := minimiseAdd(ac, r.Shape)
			w := describe(ac, keep)
			w["observed"] = mr.Msg
			c.Violation(i, r.Shape, w, "%s [profile %s height %d class %s; minimised to %d units]", mr.Msg, ac.Prof.Name, ac.Height, ac.Class, mr.FedUnits)
		}
		nontrivial := r.Shape == "" && (r.AtLimit || r.OneBelow || r.SizeNear || (r.BlackSkipped > 0 && r.TakenUnits > 0) || r.StraddleGroup)
		fp := lib.Fingerprint(describeFull(ac))
		var sample any
		if nontrivial {
			sample = map[string]any{"kind": "AddTxsToBlock", "profile": ac.Prof.Name, "height": ac.Height, "class": ac.Class, "limit": r.Limit, "fed_txs": r.Fed, "fed_units": r.FedUnits,
				"taken_txs": r.Taken, "block_bytes_vs_bound": fmt.Sprintf("%d/%d", r.SizeSum, types.MaxBlockSize-reserve), "blacklisted_skipped": r.BlackSkipped, "stop": r.StopReason, "note": ac.Note}
		}
		c.Case(fp, nontrivial, sample)
		c.Count("add_lists", 1)
		c.Count("add_txs_fed", int64(r.Fed))
		c.Count("add_groups_fed", int64(r.Groups))
		c.Count("add_txs_taken", int64(r.Taken))
		if r.AtLimit {
			c.Count("add_block_exactly_at_count_limit", 1)
		}
		if r.OneBelow {
			c.Count("add_block_one_below_count_limit", 1)
		}
		if r.SizeExact {
			c.Count("add_block_exactly_at_size_bound", 1)
		}
		if r.SizeNear {
			c.Count("add_block_within_one_tx_of_size_bound", 1)
		}
		if r.StraddleGroup {
			c.Count("add_group_straddling_count_limit_rejected", 1)
		}
		c.Count("add_blacklisted_units_fed_active", int64(r.BlackFedActive))
		c.Count("add_blacklisted_units_skipped", int64(r.BlackSkipped))
		c.Count("add_noise_units_taken", int64(r.NoiseTaken))
		c.Seen("add_profile_height", fmt.Sprintf("%s@%d", ac.Prof.Name, ac.Height))
		mu.Lock()
		classCount["add/"+ac.Class]++
		if r.StopReason != "" {
			stopReasons[r.StopReason]++
		}
		mu.Unlock()
	})

	lib.Parallel(nExp, workers, func(k int) {
		i := expBase + k
		if c.Skip(i) {
			return
		}
		defer func() {
			if r := recover(); r != nil {
				c.Violation(i, "panic-expire", map[string]any{"index": i}, "CheckTxExpire case %d panicked: %v", i, r)
			}
		}()
		ec := genExpCase(c, k)
		r := runExp(ec, nil)
		if r.Shape != "" {
			keep, mr := minimiseExp(ec, r.Shape)
			w := describeExp(ec, keep)
			w["observed"] = mr.Msg
			c.Violation(i, r.Shape, w, "%s [profile %s; minimised to %d txs]", mr.Msg, ec.Prof.Name, mr.Fed)
		}
		nontrivial := r.Shape == "" && r.PartialExpGroups > 0
		var sample any
		if nontrivial {
			sample = map[string]any{"kind": "CheckTxExpire", "profile": ec.Prof.Name, "height": ec.Height, "fed_txs": r.Fed, "kept": r.Kept,
				"groups_dropped": r.GroupsDropped, "groups_dropped_with_partly_expired_members": r.PartialExpGroups, "singles_dropped": r.SinglesDropped}
		}
		c.Case(lib.Fingerprint(describeExp(ec, nil)), nontrivial, sample)
		c.Count("expire_lists", 1)
		c.Count("expire_txs_fed", int64(r.Fed))
		c.Count("expire_txs_kept", int64(r.Kept))
		c.Count("expire_groups_dropped", int64(r.GroupsDropped))
		c.Count("expire_groups_dropped_partly_expired", int64(r.PartialExpGroups))
		c.Count("expire_groups_kept", int64(r.GroupsKept))
		c.Count("expire_singles_dropped", int64(r.SinglesDropped))
		c.Count("expire_live_units_dropped(non-deciding)", int64(r.DroppedLive))
		c.Count("expire_expired_units_kept_whole(non-deciding)", int64(r.LeftExpired))
		if r.LeftExpired > 0 {
			mu.Lock()
			if len(leftExpired) < 3 {
				leftExpired = append(leftExpired, fmt.Sprintf("case %d: %s", i, r.LeftExpiredMsg))
			}
			mu.Unlock()
		}
		if r.GroupFollowedByExpired {
			c.Count("expire_lists_group_followed_by_expired_unit", 1)
		}
		mu.Lock()
		for _, s := range r.ExpPositions {
			expPos[s] = struct{}{}
		}
		mu.Unlock()
	})
	for s := range expPos {
		c.Seen("expired_member_position/groupsize", s)
	}
	c.Extra("lists_per_class", classCount)
	if len(leftExpired) > 0 {
		c.Extra("side_observation_expired_group_kept_whole", map[string]any{"note": "outside the statement (no partial group results): Transaction.IsExpire on an expanded group member " +
			"calls GetTxGroup, which decodes the 32-byte group header hash as a Transactions message; when the hash happens to parse as protobuf (~0.2% of hashes) " +
			"the member is treated as an empty group and never expires, so CheckTxExpire keeps the whole expired group", "witnesses": leftExpired})
	}
	c.Extra("first_untaken_unit_reason", stopReasons)
	var profs []map[string]any
	for _, p := range profiles {
		profs = append(profs, map[string]any{"name": p.Name, "maxTxNumber": []int64{p.N0, p.N1, p.N2}, "ForkChainParamV1": p.H1, "ForkChainParamV2": p.H2,
			"ForkAccountBlacklist": p.HBL, "ForkTxHeight": p.HT, "heights": p.heights()})
	}
	c.Extra("profiles", profs)
	c.RequireEvents("add_lists", 100)
	c.RequireEvents("expire_lists", 100)
	c.RequireEvents("add_block_exactly_at_count_limit", 10)
	c.RequireEvents("add_block_within_one_tx_of_size_bound", 10)
	c.RequireEvents("add_blacklisted_units_skipped", 10)
	c.RequireEvents("expire_groups_dropped_partly_expired", 10)
	if os.Getenv("VERIF_DEBUG") != "" {
		fmt.Fprintf(os.Stderr, "classes %v stops %v\n", classCount, stopReasons)
	}
}

// describeFull is the distinctness descriptor of a case (all units, not truncated).
func describeFull(ac *addCase) any {
	type ud struct {
		N, S, B int
		Z       string
	}
	var us []ud
	for _, u := range ac.Units {
		b := 0
		for k, m := range u.Members {
			if m.Black != 0 {
				b = (k+1)*4 + m.Black
			}
		}
		us = append(us, ud{len(u.Members), u.size(), b, u.Noise})
	}
	return map[string]any{"p": ac.Prof.Name, "h": ac.Height, "c": ac.Class, "i": len(ac.Initial), "u": us}
}

func main() { lib.Main("C30", "exploration", run) }
