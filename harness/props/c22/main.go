// C22: the mempool admits only acceptable transactions.
//
// For each generated pool/chain state a valid transaction or group is built together with one mutant per
// admission clause of the statement (and per member position of a group). Every mutant is submitted to the REAL
// mempool (verifharness/mpenv) first: none may enter the pool (soundness: in pool => every clause true, the clauses
// being evaluated on the generator's ground truth). Then the unmutated transaction is submitted and must enter
// (non-vacuity), and its resubmission must not enter again.
package main

import (
	"encoding/json"
	"fmt"
	"sort"
	"strings"
	"sync"
	"time"

	"github.com/33cn/chain33/common/address"
	"github.com/33cn/chain33/types"
	"verifharness/lib"
	"verifharness/mpenv"
)

const (
	rate   = int64(100000)
	maxFee = int64(1000000000)
	t0     = int64(3000000000)
	// tiered fee thresholds (types.MaxBlockSize = 20 000 000): bytes >= /100 -> 10x, >= /20 -> 100x
	bytes10    = int64(200000)
	bytes100   = int64(1000000)
	smallTxNum = int64(40) // mver.consensus.maxTxNumber for count-threshold cases: count >= 4 -> 10x, >= 20 -> 100x
	bigTxNum   = int64(10000)
)

func init() { lib.RegisterChild("batch", runBatch) }

type batchIn struct {
	Cases []caseIn
}
type caseIn struct {
	Idx     int
	Seed    uint64
	Special string // "expire-quirk": scripted minimal scenario for the member-header parse quirk
}

type viol struct {
	Shape string
	Msg   string
	Wit   map[string]any
}

type caseOut struct {
	Idx         int
	Desc        string
	Shape       string // single | eth | groupN | groupN-ethhead
	Tier        int64
	LevelFee    bool
	PoolCount   int
	PoolBytes   int64
	Submissions int
	Mutants     map[string]int    // clause -> mutants submitted
	Errors      map[string]string // clause -> pool's error texts
	Observed    map[string]string // non-deciding clause variants: what the pool did
	Kinds       []string          // clause/variant of every judged mutant
	PerAcc      int
	ValidOK     bool
	Violations  []viol
	Incon       string
}

// tierOf is the tiered-fee multiplier by the statement's rule, from ground truth (pool count and bytes).
func tierOf(level bool, count int, bytes int64) int64 {
	maxTxNum := curMaxTxNum
	if !level {
		return 1
	}
	switch {
	case bytes >= bytes100 || int64(count) >= maxTxNum/2:
		return 100
	case bytes >= bytes10 || int64(count) >= maxTxNum/10:
		return 10
	}
	return 1
}

// curMaxTxNum is the maxTxNumber of the case being run (cases run one after another inside a child).
var curMaxTxNum = smallTxNum

// member describes one transaction of the candidate.
type member struct {
	Key    *mpenv.Key
	To     string
	Expire int64
	Nonce  int64
	Amount int64
	Evm    *types.EVMContractAction4Chain33 // non-nil: execer "evm" with this payload
}

type spec struct {
	M       []member
	Fee     int64 // head / single fee
	SigPos  int   // -1 none
	SigKind int   // 0 flip byte, 1 signed by another key, 2 no signature
}

func (s spec) clone() spec {
	c := s
	c.M = append([]member{}, s.M...)
	return c
}

type builder struct {
	other *mpenv.Key
}

func (b *builder) rawTx(m member, fee int64) *types.Transaction {
	var tx *types.Transaction
	if m.Evm != nil {
		tx = &types.Transaction{Execer: []byte("evm"), Payload: types.Encode(m.Evm), Fee: fee, Expire: m.Expire, Nonce: m.Nonce, To: m.To, ChainID: mpenv.ChainID}
	} else {
		tx = mpenv.Transfer(m.To, m.Amount, fee, m.Expire, m.Nonce)
	}
	return tx
}

func (b *builder) breakSig(tx *types.Transaction, k *mpenv.Key, kind int) {
	switch kind {
	case 0:
		tx.Signature.Signature[len(tx.Signature.Signature)/3] ^= 0x10
	case 1:
		pub := tx.Signature.Pubkey
		tx.Sign(k.Ty, b.other.Priv)
		if b.other.Eth != k.Eth {
			// keep the signature type of the member, sign with a key of the same kind
			o := mpenv.NewKey("othersig", 0, k.Eth)
			tx.Sign(k.Ty, o.Priv)
		}
		tx.Signature.Pubkey = pub
	case 2:
		tx.Signature = nil
	}
}

// build returns the form submitted to the pool and the member transactions.
func (b *builder) build(s spec) (*types.Transaction, []*types.Transaction) {
	if len(s.M) == 1 {
		tx := b.rawTx(s.M[0], s.Fee)
		s.M[0].Key.Sign(tx)
		if s.SigPos == 0 {
			b.breakSig(tx, s.M[0].Key, s.SigKind)
		}
		return tx, []*types.Transaction{tx}
	}
	var ms []*types.Transaction
	var ks []*mpenv.Key
	for _, m := range s.M {
		ms = append(ms, b.rawTx(m, 0))
		ks = append(ks, m.Key)
	}
	g, _ := mpenv.MakeGroup(ms, ks, s.Fee)
	if s.SigPos >= 0 {
		b.breakSig(g.Txs[s.SigPos], s.M[s.SigPos].Key, s.SigKind)
	}
	return g.Tx(), g.Txs
}

type runner struct {
	rng   *lib.Rng
	env   *mpenv.Env
	out   *caseOut
	b     *builder
	nonce int64
	wit   map[string]any
}

func (r *runner) poolSet() map[string]bool {
	s := r.env.Mem.VerifSnapshot()
	m := map[string]bool{}
	for _, it := range s.Queue {
		m[it.Hash] = true
	}
	return m
}

// submitMutant submits a transaction that violates `clause`; deciding=false only records what happened.
func (r *runner) submitMutant(clause, detail string, s spec, deciding bool, pre, post func(ms []*types.Transaction)) {
	ptx, ms := r.b.build(s)
	before := r.poolSet()
	if pre != nil {
		pre(ms)
	}
	started := time.Now()
	ok, text, err := r.env.SendTx(ptx)
	slow := time.Since(started) > 1500*time.Millisecond
	if post != nil {
		post(ms)
	}
	if err != nil {
		r.out.Incon = "EventTx: " + err.Error()
		return
	}
	r.out.Submissions++
	after := r.poolSet()
	h := mpenv.H(ptx)
	entered := ok || (after[h] && !before[h]) || len(after) != len(before)
	key := clause
	if slow {
		// watchdog: the pool waits at most 2 s for the nonce / header responders and then falls back to defaults;
		// on an overloaded machine such a submission says nothing about the admission rules
		r.out.Observed["discarded-slow:"+clause] = "submission took longer than 1.5 s"
		if entered {
			r.env.DelTxList([][]byte{[]byte(h)})
		}
		return
	}
	if !deciding {
		r.out.Observed[clause+":"+detail] = fmt.Sprintf("ok=%v %s", ok, text)
		if entered {
			// take it out again so that the rest of the case sees the intended state
			r.env.DelTxList([][]byte{[]byte(h)})
		}
		return
	}
	r.out.Mutants[key]++
	r.out.Kinds = append(r.out.Kinds, clause+"/"+kindOf(detail))
	if !strings.Contains(r.out.Errors[key], normErr(text)) {
		r.out.Errors[key] += normErr(text) + "|"
	}
	if entered {
		w := map[string]any{"clause": clause, "detail": detail, "reply_ok": ok, "reply": text, "in_pool_after": after[h], "tx": ptx.JSON()}
		for k, v := range r.wit {
			w[k] = v
		}
		shape := "admitted:" + clause
		if clause == "expired" && len(ms) > 1 && headerParsesAsGroup(ms[0].Header) {
			// a member's Header is the 32-byte hash of the head; here those bytes happen to be well-formed
			// protobuf, so Transaction.IsExpire takes them for an (empty) encoded group
			shape += ":member-header-parses-as-group"
			w["head_hash"] = fmt.Sprintf("%x", ms[0].Header)
		}
		r.out.Violations = append(r.out.Violations, viol{Shape: shape,
			Msg: fmt.Sprintf("%s: a %s whose clause [%s] is false (%s) entered the pool (reply ok=%v %q, in pool afterwards=%v)", r.out.Desc, r.out.Shape, clause, detail, ok, text, after[h]), Wit: w})
		r.env.DelTxList([][]byte{[]byte(h)})
	}
}

// kindOf reduces a mutant description to its variant (numbers and addresses removed).
func kindOf(detail string) string {
	var b strings.Builder
	for _, f := range strings.Fields(detail) {
		if strings.ContainsAny(f, "0123456789") && !strings.HasPrefix(f, "member") && f != "(20-byte" {
			continue
		}
		b.WriteString(f)
		b.WriteByte(' ')
	}
	return strings.TrimSpace(b.String())
}

func headerParsesAsGroup(h []byte) bool {
	var g types.Transactions
	return len(h) == 32 && types.Decode(h, &g) == nil && len(g.Txs) < 2
}

func normErr(s string) string {
	if i := strings.Index(s, ":"); i > 0 {
		s = s[:i]
	}
	if len(s) > 36 {
		s = s[:36]
	}
	return s
}

func (r *runner) nextNonce() int64 { r.nonce++; return r.nonce }

func runCase(in caseIn) *caseOut {
	rng := lib.NewRng(in.Seed)
	out := &caseOut{Idx: in.Idx, Mutants: map[string]int{}, Errors: map[string]string{}, Observed: map[string]string{}}
	perAcc := rng.Range(1, 4)
	level := rng.Chance(55)
	H := int64(rng.Range(1, 3000))
	if in.Special == "expire-quirk" {
		return runQuirk(in, out)
	}
	if in.Special == "burst" {
		return runBurst(in, out)
	}
	out.LevelFee = level
	// ---- pool state: fillers (count / byte thresholds of the tiered fee), a sender at its limit, an eth sender
	targets := []int{0, 1, 2, 3, 4, 5, 9, 19, 20, 21, 26}
	n0 := lib.Pick(rng, targets)
	blobs := 0
	curMaxTxNum = smallTxNum
	if rng.Chance(25) {
		// byte thresholds: ~100KB entries, count thresholds out of reach
		blobs = lib.Pick(rng, []int{1, 2, 3, 3, 10, 11})
		n0 = lib.Pick(rng, []int{0, 3, 8})
		curMaxTxNum = bigTxNum
	}
	env := mpenv.New(mpenv.Opts{PoolSize: 256, MaxPerAcc: int64(perAcc), MaxLast: 4, Queue: "simple", LevelFee: level, MaxTxNumber: curMaxTxNum, Height: H, BlockTime: t0})
	defer env.Close()
	r := &runner{rng: rng, env: env, out: out, b: &builder{other: mpenv.NewKey("other", 0, false)}, nonce: int64(in.Idx) * 100000, wit: map[string]any{}}
	blk0, blk1 := mpenv.NewKey("bl", 0, false), mpenv.NewKey("bl", 1, true)
	valid := func(i int) string { return mpenv.NewKey("rcpt", i, i%3 == 2).Addr }

	count, bytes := 0, int64(0)
	admit := func(tx *types.Transaction, what string) bool {
		ok, text, err := env.SendTx(tx)
		if err != nil || !ok {
			out.Incon = fmt.Sprintf("state setup: %s not admitted: %s %v", what, text, err)
			return false
		}
		count++
		bytes += int64(types.Size(tx))
		return true
	}
	full := mpenv.NewKey("full", 0, false)
	for i := 0; i < perAcc; i++ {
		tx := mpenv.Transfer(valid(i), 1, rate*tierOf(level, count, bytes), 0, r.nextNonce())
		full.Sign(tx)
		if !admit(tx, "tx of the full sender") {
			return out
		}
	}
	eth := mpenv.NewKey("eth", 0, true)
	ethNonce := int64(rng.Range(0, 6))
	env.Chain.Mu.Lock()
	env.Chain.Nonce[eth.Addr] = ethNonce
	env.Chain.Mu.Unlock()
	pending := int64(-1)
	if perAcc >= 2 {
		pending = ethNonce + int64(rng.Range(0, 2))
		tx := mpenv.Transfer(valid(1), 7, rate*tierOf(level, count, bytes), 0, pending)
		eth.Sign(tx)
		if !admit(tx, "pending eth tx") {
			return out
		}
	}
	fi := 0
	for b := 0; b < blobs; b++ {
		k := mpenv.NewKey("blob", b, false)
		tx := mpenv.Blob(valid(b), 99800, 0, 0, r.nextNonce())
		tx.Fee = 100 * rate * tierOf(level, count, bytes)
		k.Sign(tx)
		if tx.Fee < mpenv.MinFee(tx, rate*tierOf(level, count, bytes)) || types.Size(tx) >= types.MaxTxSize {
			out.Incon = "blob sizing"
			return out
		}
		if !admit(tx, "blob") {
			return out
		}
	}
	for count < n0 {
		k := mpenv.NewKey("fill", fi/perAcc, false)
		fi++
		tx := mpenv.Transfer(valid(fi), 2, rate*tierOf(level, count, bytes), 0, r.nextNonce())
		k.Sign(tx)
		if !admit(tx, "filler") {
			return out
		}
	}
	tier := tierOf(level, count, bytes)
	out.Tier, out.PoolCount, out.PoolBytes, out.PerAcc = tier, count, bytes, perAcc
	stateSet := r.poolSet()
	if len(stateSet) != count {
		out.Incon = "state setup: pool count differs"
		return out
	}

	// ---- the valid candidate
	nm := 1
	ethHead := false
	switch rng.Intn(10) {
	case 0, 1, 2, 3:
		out.Shape = "single"
	case 4, 5:
		out.Shape, ethHead = "eth", true
	default:
		nm = rng.Range(2, 4)
		ethHead = rng.Chance(25)
		out.Shape = fmt.Sprintf("group%d", nm)
		if ethHead {
			out.Shape += "-ethhead"
		}
	}
	pickExpire := func() int64 {
		switch rng.Intn(8) {
		case 0, 1:
			return H + 2 + int64(rng.Intn(50))
		case 2:
			return t0 + 1000 + int64(rng.Intn(100000))
		case 3:
			h := H + 1 + int64(rng.Range(-500, 150))
			if h < 1 {
				h = 1
			}
			return types.TxHeightFlag + h
		}
		return 0
	}
	var base spec
	base.SigPos = -1
	for i := 0; i < nm; i++ {
		m := member{Key: mpenv.NewKey("cand", i, false), To: valid(10 + i), Expire: pickExpire(), Nonce: r.nextNonce(), Amount: int64(1 + i)}
		if i == 0 && ethHead {
			m.Key = eth
			// valid nonce: not below the chain nonce and not the pending one
			m.Nonce = ethNonce + int64(rng.Range(0, 3))
			if m.Nonce == pending {
				m.Nonce = pending + 1
			}
		}
		base.M = append(base.M, m)
	}
	if ethHead && perAcc < 2 && pending >= 0 {
		out.Incon = "unreachable"
		return out
	}
	base.Fee = int64(nm) * rate * tier
	if rng.Chance(30) {
		base.Fee += base.Fee / 2
	}
	out.Desc = fmt.Sprintf("case %d (height %d, pool %d txs/%d bytes, levelFee=%v tier=%dx, perSender=%d, ethNonce=%d pending=%d)", in.Idx, H, count, bytes, level, tier, perAcc, ethNonce, pending)
	r.wit = map[string]any{"height": H, "block_time": t0, "pool_count": count, "pool_bytes": bytes, "level_fee": level, "tier": tier, "per_sender_limit": perAcc,
		"eth_chain_nonce": ethNonce, "eth_pending_nonce": pending, "candidate": out.Shape}
	fresh := func(s spec) spec { // new nonces => new hashes (eth head keeps its nonce semantics)
		c := s.clone()
		for i := range c.M {
			if !(i == 0 && ethHead) {
				c.M[i].Nonce = r.nextNonce()
			} else {
				c.M[i].Amount = r.nextNonce()
			}
		}
		return c
	}
	// sanity of the ground truth: the candidate's fee is exactly what the statement's rule demands
	if ptx, ms := r.b.build(base); true {
		var need int64
		for _, m := range ms {
			need += mpenv.MinFee(m, rate*tier)
		}
		if ptx.Fee < need || ptx.Fee > maxFee {
			out.Incon = fmt.Sprintf("candidate fee %d outside [%d,%d]", ptx.Fee, need, maxFee)
			return out
		}
	}

	for p := 0; p < nm && out.Incon == ""; p++ {
		pos := fmt.Sprintf("member %d/%d", p, nm)
		// signature
		s := fresh(base)
		s.SigPos, s.SigKind = p, rng.Intn(3)
		r.submitMutant("signature", fmt.Sprintf("%s signature kind %d (0 flipped byte, 1 signed by another key, 2 missing)", pos, s.SigKind), s, true, nil, nil)
		// on chain
		s = fresh(base)
		r.submitMutant("on-chain", pos+" already on the chain", s, true,
			func(ms []*types.Transaction) {
				env.Chain.Mu.Lock()
				env.Chain.OnChain[mpenv.H(ms[p])] = true
				env.Chain.Mu.Unlock()
			},
			func(ms []*types.Transaction) {
				env.Chain.Mu.Lock()
				delete(env.Chain.OnChain, mpenv.H(ms[p]))
				env.Chain.Mu.Unlock()
			})
		// expired for the next block
		s = fresh(base)
		kind := rng.Intn(4)
		var ex int64
		var exd string
		switch {
		case kind == 0 || (kind == 3 && H < 700):
			ex = H + 1 - int64(rng.Intn(int(min64(H, 5))))
			exd = fmt.Sprintf("expire height %d <= next height %d", ex, H+1)
		case kind == 1:
			ex = t0 - int64(rng.Intn(100000))
			exd = fmt.Sprintf("expire time %d <= block time %d", ex, t0)
		case kind == 2:
			h := H + 1 + 200 + int64(rng.Range(1, 300))
			ex = types.TxHeightFlag + h
			exd = fmt.Sprintf("TxHeight %d: next height %d < %d-%d", h, H+1, h, types.LowAllowPackHeight)
		default:
			h := H + 1 - 600 - int64(rng.Range(1, 50))
			ex = types.TxHeightFlag + h
			exd = fmt.Sprintf("TxHeight %d: next height %d > %d+%d", h, H+1, h, types.HighAllowPackHeight)
		}
		s.M[p].Expire = ex
		r.submitMutant("expired", pos+" "+exd, s, true, nil, nil)
		// recipient
		s = fresh(base)
		good := s.M[p].To
		s.M[p].To = lib.Pick(rng, []string{"notaddress", "", good[:len(good)-1], "0x1234", good + "1"})
		r.submitMutant("recipient", fmt.Sprintf("%s recipient %q", pos, s.M[p].To), s, true, nil, nil)
		// blacklist
		s = fresh(base)
		bk := rng.Intn(4)
		var bd string
		switch bk {
		case 0:
			if p == 0 && ethHead {
				s.M[p].Key = blk1
				s.M[p].Nonce = 50
			} else {
				s.M[p].Key = blk0
			}
			bd = "sender blacklisted"
		case 1:
			s.M[p].To = lib.Pick(rng, []string{blk0.Addr, blk1.Addr})
			bd = "recipient blacklisted " + s.M[p].To
		case 2:
			s.M[p].Evm = &types.EVMContractAction4Chain33{Amount: 1, ContractAddr: lib.Pick(rng, []string{blk0.Addr, blk1.Addr})}
			s.M[p].To = address.ExecAddress("evm")
			bd = "evm contract address blacklisted"
		default:
			raw, _ := address.NewBtcAddress(blk0.Addr)
			s.M[p].Evm = &types.EVMContractAction4Chain33{Amount: 1, Para: raw.Hash160[:]}
			s.M[p].To = address.ExecAddress("evm")
			bd = "evm transfer target (20-byte para) blacklisted"
		}
		r.submitMutant("blacklist", pos+" "+bd, s, true, nil, nil)
		// per-sender limit
		s = fresh(base)
		s.M[p].Key = full
		if p == 0 && ethHead {
			s.M[p].Nonce = r.nextNonce()
		}
		r.submitMutant("sender-limit", fmt.Sprintf("%s sent by a sender holding %d/%d pool entries", pos, perAcc, perAcc), s, p == 0, nil, nil)
	}
	if out.Incon != "" {
		return out
	}
	// fee (a property of the whole transaction / group)
	{
		s := fresh(base)
		s.Fee = int64(nm)*rate*tier - 1 - int64(rng.Intn(1000))
		r.submitMutant("fee", fmt.Sprintf("fee %d < minimum %d (tier %dx)", s.Fee, int64(nm)*rate*tier, tier), s, true, nil, nil)
		if tier > 1 {
			s = fresh(base)
			s.Fee = int64(nm) * rate * tier / 10 * int64(rng.Range(1, 9))
			if s.Fee < int64(nm)*rate {
				s.Fee = int64(nm) * rate
			}
			r.submitMutant("fee", fmt.Sprintf("fee %d meets the flat minimum %d but not the tiered minimum %d", s.Fee, int64(nm)*rate, int64(nm)*rate*tier), s, true, nil, nil)
		}
		if nm > 1 {
			s = fresh(base)
			s.Fee = rate * tier // pays for one member only
			r.submitMutant("fee", fmt.Sprintf("group head fee %d pays for one of %d members", s.Fee, nm), s, true, nil, nil)
		}
	}
	// eth nonce
	if ethHead {
		if ethNonce > 0 {
			s := fresh(base)
			s.M[0].Nonce = ethNonce - 1 - int64(rng.Intn(int(ethNonce)))
			r.submitMutant("eth-nonce-low", fmt.Sprintf("eth sender nonce %d < current nonce %d", s.M[0].Nonce, ethNonce), s, true, nil, nil)
		}
		if pending >= 0 {
			s := fresh(base)
			s.M[0].Nonce = pending
			r.submitMutant("eth-nonce-pending", fmt.Sprintf("eth sender nonce %d already pending in the pool", pending), s, true, nil, nil)
		}
	}
	if nm > 1 && !ethHead {
		// non-deciding: an eth-signed NON-head member with a stale nonce (the pool's sender of a group is its head)
		s := fresh(base)
		s.M[nm-1].Key = eth
		if ethNonce > 0 {
			s.M[nm-1].Nonce = ethNonce - 1
			r.submitMutant("eth-nonce-low", fmt.Sprintf("non-head member %d eth-signed with nonce %d < %d", nm-1, s.M[nm-1].Nonce, ethNonce), s, false, nil, nil)
		}
	}
	if out.Incon != "" {
		return out
	}
	// pool must be exactly the prepared state
	if now := r.poolSet(); len(now) != len(stateSet) {
		out.Violations = append(out.Violations, viol{Shape: "state-changed", Msg: out.Desc + ": pool contents changed although every submission was a mutant", Wit: r.wit})
	}
	// ---- the unmutated candidate must enter (non-vacuity) ...
	ptx, _ := r.b.build(base)
	ok, text, err := env.SendTx(ptx)
	out.Submissions++
	if err != nil {
		out.Incon = "EventTx: " + err.Error()
		return out
	}
	h := mpenv.H(ptx)
	in1 := r.poolSet()
	out.ValidOK = ok && in1[h]
	if !out.ValidOK {
		out.Incon = fmt.Sprintf("%s: the valid %s was not admitted: ok=%v %q in pool=%v", out.Desc, out.Shape, ok, text, in1[h])
		return out
	}
	// ... and not a second time
	s := env.Mem.VerifSnapshot()
	ok2, text2, err := env.SendTx(ptx)
	out.Submissions++
	if err != nil {
		out.Incon = "EventTx: " + err.Error()
		return out
	}
	s2 := env.Mem.VerifSnapshot()
	out.Mutants["already-in-pool"]++
	out.Errors["already-in-pool"] = normErr(text2)
	n := 0
	for _, it := range s2.Queue {
		if it.Hash == h {
			n++
		}
	}
	if ok2 || n != 1 || len(s2.Queue) != len(s.Queue) {
		out.Violations = append(out.Violations, viol{Shape: "admitted:already-in-pool",
			Msg: fmt.Sprintf("%s: resubmitting a %s that is in the pool: reply ok=%v %q, copies in pool %d, size %d -> %d", out.Desc, out.Shape, ok2, text2, n, len(s.Queue), len(s2.Queue)), Wit: r.wit})
	}
	// handed to p2p exactly once
	env.Chain.Mu.Lock()
	bc := env.Chain.Broadcast[h]
	env.Chain.Mu.Unlock()
	_ = bc
	if issues := mpenv.CheckSnap(s2, 256); len(issues) > 0 {
		out.Observed["bookkeeping"] = issues[0].Msg
	}
	return out
}

// runQuirk: empty pool at height 100; a 2-member group whose head hash is well-formed protobuf (found by varying
// the head's nonce); member 1 expired by height. Then the same group with an ordinary head hash.
func runQuirk(in caseIn, out *caseOut) *caseOut {
	H := int64(100)
	curMaxTxNum = bigTxNum
	env := mpenv.New(mpenv.Opts{PoolSize: 16, MaxPerAcc: 4, MaxLast: 4, Queue: "simple", Height: H, BlockTime: t0})
	defer env.Close()
	r := &runner{rng: lib.NewRng(in.Seed), env: env, out: out, b: &builder{other: mpenv.NewKey("other", 0, false)}, wit: map[string]any{}}
	out.Shape, out.Tier = "group2", 1
	out.Desc = fmt.Sprintf("case %d (scripted: height %d, empty pool, flat fee)", in.Idx, H)
	r.wit = map[string]any{"height": H, "block_time": t0, "pool_count": 0, "candidate": "group2", "scripted": "head hash grinded until it parses as protobuf"}
	mk := func(nonce int64, expire1 int64) spec {
		return spec{SigPos: -1, Fee: 2 * rate, M: []member{
			{Key: mpenv.NewKey("cand", 0, false), To: mpenv.NewKey("rcpt", 0, false).Addr, Nonce: nonce, Amount: 1},
			{Key: mpenv.NewKey("cand", 1, false), To: mpenv.NewKey("rcpt", 1, false).Addr, Nonce: 7, Amount: 2, Expire: expire1}}}
	}
	found := int64(-1)
	tried := 0
	for n := int64(1); n < 200000; n++ {
		tried++
		_, ms := r.b.build(mk(n, H))
		if headerParsesAsGroup(ms[0].Header) {
			found = n
			break
		}
	}
	out.Observed["quirk-search"] = fmt.Sprintf("head nonce %d after %d tries", found, tried)
	if found < 0 {
		out.Incon = "no head hash that parses as protobuf within 200000 tries"
		return out
	}
	// control: ordinary head hash, member 1 expired -> must be rejected (and is)
	ctl := found + 1
	for {
		_, ms := r.b.build(mk(ctl, H))
		if !headerParsesAsGroup(ms[0].Header) {
			break
		}
		ctl++
	}
	r.submitMutant("expired", fmt.Sprintf("member 1/2 expire height %d <= next height %d (ordinary head hash)", H, H+1), mk(ctl, H), true, nil, nil)
	r.submitMutant("expired", fmt.Sprintf("member 1/2 expire height %d <= next height %d (head nonce %d)", H, H+1, found), mk(found, H), true, nil, nil)
	ptx, _ := r.b.build(mk(found, 0))
	ok, _, _ := env.SendTx(ptx)
	out.Submissions++
	out.ValidOK = ok
	return out
}

// runBurst: more than the per-sender limit of valid transactions of ONE sender are submitted at the same time (the
// admission pipeline checks the count in a serial stage and stores in a later one). Whatever the interleaving, the pool
// never holds more than the limit for that sender, a refused transaction is not in the pool, an admitted one is.
func runBurst(in caseIn, out *caseOut) *caseOut {
	rng := lib.NewRng(in.Seed)
	limit := int64(rng.Range(2, 5))
	H := int64(rng.Range(10, 2000))
	curMaxTxNum = bigTxNum
	env := mpenv.New(mpenv.Opts{PoolSize: 256, MaxPerAcc: limit, MaxLast: 8, Queue: lib.Pick(rng, []string{"simple", "score"}), Height: H, BlockTime: t0})
	defer env.Close()
	out.Shape, out.Tier, out.PerAcc = "burst", 1, int(limit)
	out.Desc = fmt.Sprintf("case %d (burst: %d concurrent valid transfers of one sender, per-sender limit %d)", in.Idx, limit+12, limit)
	k := mpenv.NewKey("burst", in.Idx, false)
	m := int(limit) + 12
	txs := make([]*types.Transaction, m)
	for i := range txs {
		txs[i] = mpenv.Transfer(mpenv.NewKey("rcpt", i, false).Addr, 1, 10*rate, 0, int64(1000+i))
		k.Sign(txs[i])
	}
	oks := make([]bool, m)
	texts := make([]string, m)
	var wg sync.WaitGroup
	start := make(chan struct{})
	for i := range txs {
		wg.Add(1)
		go func(i int) {
			defer wg.Done()
			<-start
			ok, text, err := env.SendTx(txs[i])
			if err != nil {
				text = "harness: " + err.Error()
			}
			oks[i], texts[i] = ok, text
		}(i)
	}
	close(start)
	wg.Wait()
	out.Submissions += m
	pool, err := env.GetMempool(true)
	if err != nil {
		out.Incon = "burst: GetMempool failed: " + err.Error()
		return out
	}
	in1 := map[string]bool{}
	cnt := int64(0)
	for _, t := range pool {
		in1[mpenv.H(t)] = true
		if t.From() == k.Addr {
			cnt++
		}
	}
	admitted := 0
	for i := range txs {
		if oks[i] {
			admitted++
		}
		switch {
		case !oks[i] && in1[mpenv.H(txs[i])]:
			out.Violations = append(out.Violations, viol{Shape: "burst/refused-but-in-pool", Msg: fmt.Sprintf("case %d: concurrent submission %d of %d by one sender (limit %d) was answered %q but the transaction is in the pool", in.Idx, i, m, limit, texts[i]),
				Wit: map[string]any{"limit": limit, "burst": m, "reply": texts[i], "pool_count_of_sender": cnt}})
		case oks[i] && !in1[mpenv.H(txs[i])]:
			out.Violations = append(out.Violations, viol{Shape: "burst/admitted-but-not-in-pool", Msg: fmt.Sprintf("case %d: concurrent submission %d of %d by one sender (limit %d) was admitted but is not in the pool", in.Idx, i, m, limit),
				Wit: map[string]any{"limit": limit, "burst": m}})
		}
	}
	if cnt > limit {
		out.Violations = append(out.Violations, viol{Shape: "burst/over-sender-limit", Msg: fmt.Sprintf("case %d: after %d concurrent submissions the pool holds %d transactions of one sender, limit %d", in.Idx, m, cnt, limit),
			Wit: map[string]any{"limit": limit, "burst": m, "pool_count_of_sender": cnt}})
	}
	out.Observed["burst"] = fmt.Sprintf("limit %d: %d admitted", limit, admitted)
	out.Mutants["sender-limit-concurrent"] = m - admitted
	out.ValidOK = admitted > 0
	return out
}

func min64(a, b int64) int64 {
	if a < b {
		return a
	}
	return b
}

func runBatch(in []byte) (any, error) {
	var b batchIn
	if err := json.Unmarshal(in, &b); err != nil {
		return nil, err
	}
	bl0, bl1 := mpenv.NewKey("bl", 0, false), mpenv.NewKey("bl", 1, true)
	types.SetBlockedAccountsForTest([]string{bl0.Addr, bl1.Addr})
	var outs []*caseOut
	for _, ci := range b.Cases {
		outs = append(outs, runCase(ci))
	}
	return outs, nil
}

func run(c *lib.Ctx) {
	c.Rule("each case = generated chain/pool state (height 1-3000, 0-26 pool entries or 2-11 ~100KB entries around both tiered-fee thresholds, tiered fee on/off, per-sender limit 1-4, " +
		"a sender at its limit, an eth sender with chain nonce 0-6 and a pending entry, two blacklisted accounts) + a valid single / eth-signed / 2-4 member group; " +
		"mutants: per member position {signature (flipped, foreign key, missing), on chain, expired (height, block time, TxHeight window both sides), recipient, blacklist (sender, recipient, evm contract, evm 20-byte target), " +
		"sender at limit (head deciding)}, per transaction {fee below minimum, fee between flat and tiered minimum, group head paying one member}, eth {nonce below current, nonce pending}; then the valid one and its resubmission. " +
		"non-trivial case = the valid transaction was admitted AND >= 6 distinct clauses had a mutant submitted; distinct_nontrivial = distinct (shape, tier, level fee, clause->reply map) fingerprints")
	c.Assume("the per-sender and eth-nonce clauses are decided for the pool's sender of a group (its head); the same mutation in other member positions is recorded, not judged",
		"proxied transactions (a blacklisted account inside a proxy-exec payload) belong to C31",
		"expiry classes are generated away from the wall clock: time expiries are >= 3e9 s",
		"types.SetBlockedAccountsForTest installs the blacklist once per child process before any pool exists")
	n := c.N(80, 12000)
	per := 4
	if !c.Quick() {
		per = 50
	}
	var batches []batchIn
	var cur batchIn
	for i := 0; i < n; i++ {
		if c.Skip(i) {
			continue
		}
		cur.Cases = append(cur.Cases, caseIn{Idx: i, Seed: c.CaseRng("case", i).U64()})
		if len(cur.Cases) == per {
			batches = append(batches, cur)
			cur = batchIn{}
		}
	}
	if len(cur.Cases) > 0 {
		batches = append(batches, cur)
	}
	if !c.Skip(n) {
		batches = append(batches, batchIn{Cases: []caseIn{{Idx: n, Seed: 1, Special: "expire-quirk"}}})
	}
	// concurrent bursts of one sender beyond its limit
	nb := c.N(12, 400)
	for i := 0; i < nb; i += 4 {
		var b batchIn
		for j := i; j < i+4 && j < nb; j++ {
			if !c.Skip(n + 1 + j) {
				b.Cases = append(b.Cases, caseIn{Idx: n + 1 + j, Seed: c.CaseRng("burst", j).U64(), Special: "burst"})
			}
		}
		if len(b.Cases) > 0 {
			batches = append(batches, b)
		}
	}
	var mu sync.Mutex
	var all []*caseOut
	lib.Parallel(len(batches), 12, func(k int) {
		res := c.Child("batch", batches[k], lib.ChildOpts{Timeout: 10 * time.Minute})
		if res.TimedOut {
			c.Inconclusive("batch %d: watchdog", k)
			return
		}
		if res.Died {
			c.Violation(batches[k].Cases[0].Idx, "crash", map[string]any{"cases": batches[k], "stderr": res.Stderr}, "batch starting at case %d killed the process: %s", batches[k].Cases[0].Idx, firstLines(res.Stderr, 12))
			return
		}
		var outs []*caseOut
		if err := json.Unmarshal(res.Out, &outs); err != nil {
			c.Inconclusive("batch %d: unreadable output", k)
			return
		}
		mu.Lock()
		all = append(all, outs...)
		mu.Unlock()
	})
	sort.Slice(all, func(i, j int) bool { return all[i].Idx < all[j].Idx })
	errTexts := map[string]map[string]bool{}
	observed := map[string]map[string]int{}
	for _, o := range all {
		if o.Incon != "" {
			c.Inconclusive("%s", o.Incon)
			continue
		}
		c.Count("submissions", int64(o.Submissions))
		c.Count("cases."+strings.Split(o.Shape, "-")[0], 1)
		c.Count(fmt.Sprintf("tier.%dx", o.Tier), 1)
		if o.ValidOK {
			c.Count("valid_admitted", 1)
		}
		for cl, k := range o.Mutants {
			c.Count("mutants."+cl, int64(k))
			c.Count("mutants_total", int64(k))
			if errTexts[cl] == nil {
				errTexts[cl] = map[string]bool{}
			}
			for _, t := range strings.Split(o.Errors[cl], "|") {
				if t != "" {
					errTexts[cl][t] = true
				}
			}
		}
		for k, v := range o.Observed {
			cl := strings.SplitN(k, ":", 2)[0]
			if observed[cl] == nil {
				observed[cl] = map[string]int{}
			}
			observed[cl][v]++
		}
		for _, v := range o.Violations {
			c.Violation(o.Idx, v.Shape, v.Wit, "%s", v.Msg)
		}
		c.Seen("pool_states", fmt.Sprintf("%d/%d/%v/%d", o.PoolCount, o.PoolBytes/100000, o.LevelFee, o.Tier))
		sort.Strings(o.Kinds)
		fp := lib.Fingerprint(map[string]any{"s": o.Shape, "t": o.Tier, "l": o.LevelFee, "e": o.Errors, "k": o.Kinds, "n": o.PoolCount, "p": o.PerAcc})
		for _, k := range o.Kinds {
			c.Seen("mutant_variants", k)
		}
		var sample any
		if o.Idx < 3 {
			sample = map[string]any{"case": o.Desc, "candidate": o.Shape, "mutants": o.Mutants, "pool_replies": o.Errors}
		}
		if o.Shape == "burst" {
			c.Count("burst_cases", 1)
			c.Count("burst_submissions_refused", int64(o.Mutants["sender-limit-concurrent"]))
			fp = lib.Fingerprint(map[string]any{"s": "burst", "p": o.PerAcc, "o": o.Observed["burst"], "i": o.Idx})
		}
		c.Case(fp, o.ValidOK && (len(o.Mutants) >= 6 || o.Observed["quirk-search"] != "" || o.Shape == "burst"), sample)
	}
	rep := map[string][]string{}
	for cl, m := range errTexts {
		for t := range m {
			rep[cl] = append(rep[cl], t)
		}
		sort.Strings(rep[cl])
	}
	c.Extra("pool_replies_per_clause", rep)
	c.Extra("non_deciding_variants_observed", observed)
	c.RequireEvents("mutants_total", 100)
	c.RequireEvents("valid_admitted", 10)
	c.RequireEvents("burst_submissions_refused", 20)
	for _, cl := range []string{"signature", "on-chain", "expired", "recipient", "blacklist", "sender-limit", "fee", "eth-nonce-low", "eth-nonce-pending", "already-in-pool"} {
		c.RequireEvents("mutants."+cl, 1)
	}
}

func firstLines(s string, n int) string {
	ls := strings.Split(s, "\n")
	if len(ls) > n {
		ls = ls[:n]
	}
	return strings.Join(ls, "\n")
}

func main() { lib.Main("C22", "exploration", run) }
