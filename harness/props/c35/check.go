package main

import (
	"fmt"
	"sort"
	"strings"
)

// offline checker over the log of one task

type finding struct {
	Shape   string `json:"shape"`
	Msg     string `json:"msg"`
	Witness any    `json:"witness"`
}

type taskStats struct {
	Requests      map[string]int // per peer
	Delivered     int
	Servable      int
	Failures      int
	Failovers     int // heights delivered after >= 1 failed request for that height
	ReDownloads   int // heights picked in checkTask's pass
	WrongForwards int
	PickOrderFP   string
	NoPick        int
}

func checkTask(ts taskSpec, to taskOut) ([]finding, taskStats) {
	var fs []finding
	st := taskStats{Requests: map[string]int{}}
	spec := map[string]*peerSpec{}
	for i := range ts.Peers {
		spec[ts.Peers[i].Name] = &ts.Peers[i]
	}
	type key struct {
		p string
		h int64
	}
	reqs := map[key][]event{}
	picks := map[key][]event{}
	syncs := map[int64][]event{}
	var failSeqs []event // failing requests in order
	var order []string
	for _, e := range to.Events {
		switch e.Ev {
		case "req":
			reqs[key{e.Peer, e.Height}] = append(reqs[key{e.Peer, e.Height}], e)
			st.Requests[e.Peer]++
			if !serves(e.Mode) {
				st.Failures++
				failSeqs = append(failSeqs, e)
			}
		case "pick":
			if e.Peer == "" {
				st.NoPick++
				continue
			}
			picks[key{e.Peer, e.Height}] = append(picks[key{e.Peer, e.Height}], e)
			if !e.First {
				st.ReDownloads++
			}
			order = append(order, fmt.Sprintf("%s:%d:%v", e.Peer, e.Height, e.First))
		case "sync":
			syncs[e.Height] = append(syncs[e.Height], e)
		}
	}
	st.PickOrderFP = fmt.Sprint(len(order), "|", hashStrings(order))

	// clause 3: termination (bounded restatement)
	if !to.Returned && to.HangFrames != "" {
		var stalled []string
		for k, rs := range reqs {
			if rs[0].Mode == mStall {
				stalled = append(stalled, fmt.Sprintf("%s@%d", k.p, k.h))
			}
		}
		sort.Strings(stalled)
		shape := "task-hangs:downloadBlockFromPeerOld"
		if len(stalled) > 0 {
			shape += ":stalled-peer"
		}
		fs = append(fs, finding{shape, fmt.Sprintf("task %d-%d did not return within %d ms (30 s + 2 x worst-case retry budget); 15 s later the same goroutines were still blocked in the stream exchange of downloadBlockFromPeerOld (no deadline); stalled requests: %v",
			ts.Start, ts.End, to.BoundMs, stalled), map[string]any{"task": ts, "goroutines": to.HangFrames, "stalled": stalled}})
	}

	// clause 1: every servable height delivered
	for h := ts.Start; h <= ts.End; h++ {
		var servers []string
		for i := range ts.Peers {
			p := &ts.Peers[i]
			if p.Adv >= h && serves(p.mode(h)) {
				servers = append(servers, p.Name)
			}
		}
		want := fmt.Sprintf("parent-%d-%d|%d", ts.Idx, h-1, h)
		got := false
		for _, s := range syncs[h] {
			if s.Hash == want {
				got = true
			}
		}
		if len(servers) == 0 {
			continue
		}
		st.Servable++
		if got {
			st.Delivered++
			failed := false
			for k, rs := range reqs {
				if k.h == h && !serves(rs[0].Mode) {
					failed = true
				}
			}
			if failed {
				st.Failovers++
			}
			continue
		}
		if !to.Returned {
			continue // reported by clause 3
		}
		// classify the loss
		shape := "undelivered:servable-height-lost"
		detail := ""
		for i := range ts.Peers {
			p := &ts.Peers[i]
			m := p.mode(h)
			if (m != mWrongH && m != mNilBlock) || len(reqs[key{p.Name, h}]) == 0 {
				continue
			}
			// the block this peer answers the request for h with: another height, or (nil block on the wire) an empty block of height 0
			wh, wid := h+p.WrongBy, fmt.Sprintf("parent-%d-%d|%d", ts.Idx, h+p.WrongBy-1, h+p.WrongBy)
			if m == mNilBlock {
				wh, wid = 0, "|0"
			}
			for _, s := range syncs[wh] {
				if s.Hash == wid && s.Peer == p.Name {
					shape = "undelivered:wrong-height-forwarded"
					detail = fmt.Sprintf("; peer %s answered the request for %d with a block of height %d, which was forwarded to the blockchain as the result", p.Name, h, wh)
				}
			}
		}
		var asked []string
		for k, rs := range reqs {
			if k.h == h {
				asked = append(asked, fmt.Sprintf("%s(%s)x%d", k.p, rs[0].Mode, len(rs)))
			}
		}
		sort.Strings(asked)
		fs = append(fs, finding{shape, fmt.Sprintf("height %d of task %d-%d is served by %v but was never delivered to the blockchain; asked: %v%s", h, ts.Start, ts.End, servers, asked, detail),
			map[string]any{"task": ts, "height": h, "servers": servers, "asked": asked, "events": eventsFor(to.Events, h)}})
	}
	for h, ss := range syncs {
		for _, s := range ss {
			if !strings.HasPrefix(s.Hash, fmt.Sprintf("parent-%d-%d|", ts.Idx, h-1)) || h < ts.Start || h > ts.End {
				st.WrongForwards++
			}
		}
	}

	// clause 2: a peer that failed a height is not asked for it again
	type re struct {
		k     key
		n     int
		shape string
		msg   string
	}
	best := map[string]re{}
	for k, rs := range reqs {
		if len(rs) < 2 || serves(rs[0].Mode) {
			continue
		}
		ps := picks[k]
		nFirst, nRe := 0, 0
		var lastFirst, lastRe int64
		for _, p := range ps {
			if p.First {
				nFirst++
				lastFirst = p.Seq
			} else {
				nRe++
				lastRe = p.Seq
			}
		}
		shape := ""
		if nFirst <= 1 && nRe <= 1 {
			shape = "reask:retry-pass"
		} else {
			inPass, last := nFirst, lastFirst
			if nRe > nFirst {
				inPass, last = nRe, lastRe
			}
			foreign := 0
			for _, f := range failSeqs {
				if f.Seq < last && f.Height != k.h {
					foreign++
				}
			}
			if inPass <= 1+foreign {
				shape = "reask:same-pass:after-foreign-removal"
			} else {
				shape = "reask:same-pass:solo"
			}
		}
		msg := fmt.Sprintf("peer %s failed height %d (%s) and was asked for it %d times in task %d-%d (first pass %d, re-download pass %d)", k.p, k.h, rs[0].Mode, len(rs), ts.Start, ts.End, nFirst, nRe)
		if b, ok := best[shape]; !ok || len(rs) < b.n || (len(rs) == b.n && (k.h < b.k.h || k.h == b.k.h && k.p < b.k.p)) {
			best[shape] = re{k, len(rs), shape, msg}
		}
	}
	var shapes []string
	for s := range best {
		shapes = append(shapes, s)
	}
	sort.Strings(shapes)
	for _, s := range shapes {
		b := best[s]
		fs = append(fs, finding{b.shape, b.msg, map[string]any{"task": ts, "peer": b.k.p, "height": b.k.h, "events": eventsFor(to.Events, b.k.h)}})
	}
	return fs, st
}

func eventsFor(evs []event, h int64) []event {
	var out []event
	for _, e := range evs {
		if e.Height == h || (e.Ev == "req" && !serves(e.Mode)) {
			out = append(out, e)
		}
		if len(out) >= 60 {
			break
		}
	}
	return out
}

func hashStrings(xs []string) string {
	var h uint64 = 1469598103934665603
	for _, x := range xs {
		for i := 0; i < len(x); i++ {
			h ^= uint64(x[i])
			h *= 1099511628211
		}
		h ^= 0xff
		h *= 1099511628211
	}
	return fmt.Sprintf("%016x", h)
}
