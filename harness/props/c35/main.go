// C35: a block-download task delivers every servable height, never re-asks a peer that failed a height, and terminates.
//
// Each child process runs ONE real node (download protocol on an in-process libp2p host, harness responder behind the
// blockchain topic) and, per task, a fresh set of scripted fake peers (in-process libp2p hosts on loopback) that answer
// /chain33/downloadBlockReq/1.0.0: serve, serve slowly, refuse (reset), close, empty reply, malformed frames, wrong
// height, stall, not advertised (peer height below the requested one). Everything each peer saw, every peer selection
// of the real downloadBlock (hook), and every EventSyncBlock the fake blockchain received is logged; the parent decides
// the property offline over that log (check.go).
package main

import (
	"encoding/json"
	"fmt"
	"os"
	"path/filepath"
	"runtime"
	"sort"
	"strings"
	"sync"
	"sync/atomic"
	"time"

	"github.com/33cn/chain33/system/p2p/dht/protocol"
	"github.com/33cn/chain33/system/p2p/dht/protocol/download"
	"github.com/33cn/chain33/types"
	"github.com/libp2p/go-libp2p/core/network"

	"verifharness/lib"
	"verifharness/p2penv"
)

// reply modes of a fake peer for one height
const (
	mServe     = "serve"
	mSlow      = "slow" // serve after DelayMs
	mRefuse    = "refuse"
	mClose     = "close"
	mEmpty     = "empty"       // MessageGetBlocksResp without items
	mNilMsg    = "nilmsg"      // MessageGetBlocksResp without Message
	mWrongKind = "wrongkind"   // item carries a tx instead of a block
	mNilBlock  = "nilblock"    // item of kind block without a block
	mGarbage   = "garbage"     // header + random bytes
	mTrunc     = "truncated"   // header + length prefix + half of the body, then close
	mOverlong  = "overlong"    // header + length prefix above the 20 MB limit
	mBadHeader = "badheader"   // wrong multicodec header
	mWrongH    = "wrongheight" // a well-formed block of another height
	mStall     = "stall"       // request read, no reply, stream kept open
)

func serves(m string) bool { return m == mServe || m == mSlow }

type peerSpec struct {
	Name      string           `json:"name"`
	Adv       int64            `json:"adv"`     // advertised height (PeerInfoManager)
	Default   string           `json:"default"` // mode for heights without an exception
	Except    map[int64]string `json:"except,omitempty"`
	DelayMs   int              `json:"delay_ms,omitempty"` // reply delay (all modes except stall)
	LatencyMs int              `json:"latency_ms"`         // recorded in the node's peerstore (0: unknown => the code's 1 s default)
	WrongBy   int64            `json:"wrong_by,omitempty"`
}

func (p *peerSpec) mode(h int64) string {
	if m, ok := p.Except[h]; ok {
		return m
	}
	return p.Default
}

type taskSpec struct {
	Idx   int        `json:"idx"`
	Kind  string     `json:"kind"`
	Start int64      `json:"start"`
	End   int64      `json:"end"`
	Peers []peerSpec `json:"peers"`
}

type event struct {
	Seq    int64    `json:"seq"`
	Ms     int64    `json:"ms"`
	Ev     string   `json:"ev"` // pick | req | sync | end
	Peer   string   `json:"peer,omitempty"`
	Height int64    `json:"h,omitempty"`
	Mode   string   `json:"mode,omitempty"`
	First  bool     `json:"first,omitempty"` // pick: concurrent first pass (false: checkTask re-download)
	Index  int      `json:"index,omitempty"`
	View   []string `json:"view,omitempty"`
	Hash   string   `json:"hash,omitempty"`
}

type taskOut struct {
	Idx        int     `json:"idx"`
	Events     []event `json:"events"`
	Returned   bool    `json:"returned"`
	WallMs     int64   `json:"wall_ms"`
	BoundMs    int64   `json:"bound_ms"`
	Reply      string  `json:"reply"`
	HangFrames string  `json:"hang_frames,omitempty"` // goroutines of the download package still alive when the bound expired
	Fatal      string  `json:"fatal,omitempty"`
}

type childIn struct {
	Seed  uint64     `json:"seed"`
	Tasks []taskSpec `json:"tasks"`
}

type childOut struct {
	Tasks []taskOut `json:"tasks"`
	Fatal string    `json:"fatal,omitempty"`
}

// ---------------------------------------------------------------------------------------------
// child

type recorder struct {
	mu    sync.Mutex
	t0    time.Time
	seq   int64
	evs   []event
	names map[string]string // peer id -> spec name
	log   *os.File
}

func (r *recorder) add(e event) {
	r.mu.Lock()
	r.seq++
	e.Seq = r.seq
	e.Ms = time.Since(r.t0).Milliseconds()
	r.evs = append(r.evs, e)
	if r.log != nil {
		b, _ := json.Marshal(e)
		r.log.Write(append(b, '\n'))
	}
	r.mu.Unlock()
}

var curRec atomic.Pointer[recorder]

func blockFor(task int, h int64) *types.Block {
	return &types.Block{Height: h, BlockTime: 1700000000 + h, ParentHash: []byte(fmt.Sprintf("parent-%d-%d", task, h-1)),
		StateHash: []byte(fmt.Sprintf("state-%d-%d", task, h)), TxHash: []byte("txhash"), Difficulty: 0x1f00ffff}
}

func child(in []byte) (any, error) {
	var ci childIn
	if err := json.Unmarshal(in, &ci); err != nil {
		return nil, err
	}
	out := &childOut{}
	n := p2penv.NewNode(p2penv.Opts{})
	defer n.Close()
	download.VerifPicked = func(height int64, pid string, index int, first bool, view []string) {
		r := curRec.Load()
		if r == nil {
			return
		}
		r.mu.Lock()
		nm := r.names[pid]
		vv := make([]string, len(view))
		for i, v := range view {
			vv[i] = r.names[v]
		}
		r.mu.Unlock()
		r.add(event{Ev: "pick", Peer: nm, Height: height, First: first, Index: index, View: vv})
	}
	logDir := os.Getenv("VERIF_TMP")
	for _, ts := range ci.Tasks {
		out.Tasks = append(out.Tasks, runTask(n, ts, logDir))
	}
	return out, nil
}

func runTask(n *p2penv.Node, ts taskSpec, logDir string) taskOut {
	to := taskOut{Idx: ts.Idx}
	rec := &recorder{t0: time.Now(), names: map[string]string{}}
	if logDir != "" {
		rec.log, _ = os.Create(filepath.Join(logDir, fmt.Sprintf("task-%d.log", ts.Idx)))
		defer rec.log.Close()
	}
	done := make(chan struct{})
	var peers []*p2penv.Peer
	var pids []string
	rng := lib.NewRng(uint64(ts.Idx)*7919 + 13)
	for i := range ts.Peers {
		ps := &ts.Peers[i]
		p := p2penv.NewPeer(n.Ctx, fmt.Sprintf("t%d-%s", ts.Idx, ps.Name), false)
		peers = append(peers, p)
		rec.names[p.ID().String()] = ps.Name
		taskIdx := ts.Idx
		p.Host.SetStreamHandler(p2penv.ProtoDownloadOld, func(s network.Stream) {
			var req types.MessageGetBlocksReq
			if err := protocol.ReadStream(&req, s); err != nil || req.Message == nil {
				s.Reset()
				return
			}
			h := req.Message.StartHeight
			m := ps.mode(h)
			rec.add(event{Ev: "req", Peer: ps.Name, Height: h, Mode: m})
			if m == mStall {
				<-done
				s.Reset()
				return
			}
			if ps.DelayMs > 0 || m == mSlow {
				d := ps.DelayMs
				if d == 0 {
					d = 150
				}
				time.Sleep(time.Duration(d) * time.Millisecond)
			}
			item := func(b *types.Block) *types.MessageGetBlocksResp {
				return &types.MessageGetBlocksResp{Message: &types.InvDatas{Items: []*types.InvData{{Ty: 2, Value: &types.InvData_Block{Block: b}}}}}
			}
			switch m {
			case mServe, mSlow:
				_ = protocol.WriteStream(item(blockFor(taskIdx, h)), s)
				s.Close()
			case mWrongH:
				_ = protocol.WriteStream(item(blockFor(taskIdx, h+ps.WrongBy)), s)
				s.Close()
			case mRefuse:
				s.Reset()
			case mClose:
				s.Close()
			case mEmpty:
				_ = protocol.WriteStream(&types.MessageGetBlocksResp{Message: &types.InvDatas{}}, s)
				s.Close()
			case mNilMsg:
				_ = protocol.WriteStream(&types.MessageGetBlocksResp{}, s)
				s.Close()
			case mWrongKind:
				_ = protocol.WriteStream(&types.MessageGetBlocksResp{Message: &types.InvDatas{Items: []*types.InvData{{Ty: 1, Value: &types.InvData_Tx{Tx: &types.Transaction{Payload: []byte("x")}}}}}}, s)
				s.Close()
			case mNilBlock:
				_ = protocol.WriteStream(&types.MessageGetBlocksResp{Message: &types.InvDatas{Items: []*types.InvData{{Ty: 2, Value: &types.InvData_Block{}}}}}, s)
				s.Close()
			case mGarbage:
				s.Write(p2penv.Frame(lib.NewRng(uint64(h)).Bytes(200)))
				s.Close()
			case mTrunc:
				body := types.Encode(item(blockFor(taskIdx, h)))
				s.Write(p2penv.FrameLen(uint64(len(body)), body[:len(body)/2]))
				s.Close()
			case mOverlong:
				s.Write(p2penv.FrameLen(uint64(types.MaxBlockSize)+1+uint64(h), []byte("abc")))
				s.Close()
			case mBadHeader:
				s.Write([]byte("\x10/protobuf/xxxxx\n\x02ab"))
				s.Close()
			default:
				s.Reset()
			}
		})
		if err := n.Connect(p.Host); err != nil {
			to.Fatal = "connect: " + err.Error()
			return to
		}
		n.SetPeerHeight(p.ID(), ps.Adv)
		if ps.LatencyMs > 0 {
			for k := 0; k < 12; k++ { // EWMA converges towards the recorded value
				n.Host.Peerstore().RecordLatency(p.ID(), time.Duration(ps.LatencyMs)*time.Millisecond)
			}
		}
		pids = append(pids, p.ID().Pretty())
	}
	_ = rng
	defer func() {
		for _, p := range peers {
			p.Close()
		}
	}()
	// bound: generous multiple of the worst-case retry budget of the (repaired) downloader. A height that fails at
	// every advertising peer costs its stalled requests (10 s deadline each) plus, when a non-advertising peer stays
	// in the list, 50 retries x 400 ms; the first pass runs the heights concurrently, the re-download pass one by one.
	var pass1, pass2 int64 // seconds
	stallPeers := map[int]bool{}
	for h := ts.Start; h <= ts.End; h++ {
		servable, unadv, stalls := false, false, int64(0)
		for i := range ts.Peers {
			if ts.Peers[i].Adv < h {
				unadv = true
				continue
			}
			switch m := ts.Peers[i].mode(h); {
			case serves(m):
				servable = true
			case m == mStall:
				stalls++
				stallPeers[i] = true
			}
		}
		cost := stalls * 10
		if !servable && unadv {
			cost += 21
		}
		if cost > pass1 {
			pass1 = cost
		}
		if !servable {
			pass2 += cost
		}
	}
	pass1 += int64(len(stallPeers)) * 10
	bound := 30*time.Second + 2*time.Duration(pass1+pass2)*time.Second
	if ts.Kind == "slot-starvation" {
		// first pass: 20 s of retries + one reply delay; re-download pass: one reply delay per starved height (up to two rounds of 20)
		bound = 30*time.Second + 2*time.Duration(25+45*5)*time.Second
	}
	to.BoundMs = bound.Milliseconds()
	seq0 := int64(0)
	if ps := n.Chain.Snapshot(0); len(ps) > 0 {
		seq0 = ps[len(ps)-1].Seq
	}
	curRec.Store(rec)
	ret := make(chan string, 1)
	t0 := time.Now()
	go func() {
		msg := n.CallHandler(types.EventFetchBlocks, &types.ReqBlocks{Start: ts.Start, End: ts.End, Pid: pids})
		_ = msg
		ret <- "returned"
	}()
	select {
	case <-ret:
		to.Returned = true
	case <-time.After(bound):
		// a goroutine that sits in the same stream exchange in two dumps 15 s apart has outlived any 10 s stream
		// deadline: it is blocked for good. Goroutines that are merely retrying (sleep) are not a hang.
		d1 := downloadGoroutines("downloadBlockFromPeerOld")
		select {
		case <-ret:
			to.Returned = true
		case <-time.After(15 * time.Second):
			d2 := downloadGoroutines("downloadBlockFromPeerOld")
			var keep []string
			for id, st := range d2 {
				if _, ok := d1[id]; ok {
					keep = append(keep, st)
				}
			}
			sort.Strings(keep)
			if len(keep) > 4 {
				keep = keep[:4]
			}
			to.HangFrames = strings.Join(keep, "\n\n")
		}
	}
	to.WallMs = time.Since(t0).Milliseconds()
	if !n.Barrier() {
		to.Fatal = "watchdog: the fake blockchain did not drain its queue"
		return to
	}
	for _, p := range n.Chain.Snapshot(seq0) {
		if p.Ty != types.EventSyncBlock || p.Block == nil {
			continue
		}
		nm := "?"
		rec.mu.Lock()
		for id, name := range rec.names {
			if strings.HasSuffix(p.Pid, id) || p.Pid == id {
				nm = name
			}
		}
		rec.mu.Unlock()
		rec.add(event{Ev: "sync", Peer: nm, Height: p.Block.Height, Hash: blockID(p.Block)})
	}
	rec.add(event{Ev: "end"})
	close(done)
	curRec.Store(nil)
	if !to.Returned {
		// let the released goroutines finish so that the next task starts clean
		select {
		case <-ret:
		case <-time.After(60 * time.Second):
		}
	}
	rec.mu.Lock()
	to.Events = rec.evs
	rec.mu.Unlock()
	return to
}

func blockID(b *types.Block) string { return fmt.Sprintf("%s|%d", b.ParentHash, b.Height) }

// downloadGoroutines returns the stacks (by goroutine header) of goroutines currently inside fn of the download package.
func downloadGoroutines(fn string) map[string]string {
	buf := make([]byte, 16<<20)
	buf = buf[:runtime.Stack(buf, true)]
	out := map[string]string{}
	for _, g := range strings.Split(string(buf), "\n\n") {
		if strings.Contains(g, "dht/protocol/download.(*Protocol)."+fn) {
			ls := strings.Split(g, "\n")
			id := strings.Fields(ls[0])
			if len(id) < 2 {
				continue
			}
			if len(ls) > 24 {
				ls = ls[:24]
			}
			out[id[1]] = strings.Join(ls, "\n")
		}
	}
	return out
}

func main() {
	lib.RegisterChild("node", child)
	lib.Main("C35", "exploration", run)
}
