package main

import (
	"encoding/json"
	"fmt"
	"os"
	"path/filepath"
	"sort"
	"strings"
	"sync"
	"time"

	"verifharness/lib"
)

var failModes = []string{mRefuse, mClose, mEmpty, mNilMsg, mWrongKind, mNilBlock, mGarbage, mTrunc, mOverlong, mBadHeader}

func genTask(rng *lib.Rng, idx int, kind string) taskSpec {
	ts := taskSpec{Idx: idx, Kind: kind, Start: int64(1 + rng.Intn(1000))}
	name := func(i int) string { return string(rune('A' + i)) }
	span := func(lo, hi int) { ts.End = ts.Start + int64(rng.Range(lo, hi)) - 1 }
	lat := func() int { return lib.Pick(rng, []int{0, 0, 5, 20, 50, 120, 300}) }
	peer := func(i int, def string) peerSpec {
		return peerSpec{Name: name(i), Adv: 1 << 40, Default: def, LatencyMs: lat(), Except: map[int64]string{}}
	}
	switch kind {
	case "healthy":
		span(1, 60)
		for i := 0; i < rng.Range(1, 4); i++ {
			p := peer(i, lib.Pick(rng, []string{mServe, mServe, mSlow}))
			p.DelayMs = lib.Pick(rng, []int{0, 0, 20, 80})
			ts.Peers = append(ts.Peers, p)
		}
	case "one-good":
		span(1, 20)
		nb := rng.Range(1, 5)
		for i := 0; i < nb; i++ {
			p := peer(i, lib.Pick(rng, failModes))
			p.LatencyMs = 1 + rng.Intn(40) // asked before the good one
			p.DelayMs = lib.Pick(rng, []int{0, 0, 30, 100})
			ts.Peers = append(ts.Peers, p)
		}
		g := peer(nb, mServe)
		g.LatencyMs = 500
		ts.Peers = append(ts.Peers, g)
	case "complementary":
		span(4, 70)
		np := rng.Range(2, 3)
		for i := 0; i < np; i++ {
			p := peer(i, mServe)
			p.DelayMs = lib.Pick(rng, []int{0, 10, 40, 120})
			for h := ts.Start; h <= ts.End; h++ {
				if int(h)%np != i {
					p.Except[h] = lib.Pick(rng, failModes)
				}
			}
			ts.Peers = append(ts.Peers, p)
		}
	case "wrong-height":
		span(1, 10)
		w := peer(0, mServe)
		w.LatencyMs = 1 + rng.Intn(10)
		w.WrongBy = lib.Pick(rng, []int64{1, -1, 2, 1000})
		all := rng.Bool()
		for h := ts.Start; h <= ts.End; h++ {
			if all || rng.Chance(40) || h == ts.Start {
				w.Except[h] = mWrongH
			}
		}
		g := peer(1, mServe)
		g.LatencyMs = 400
		ts.Peers = append(ts.Peers, w, g)
		if rng.Bool() {
			ts.Peers = append(ts.Peers, peer(2, lib.Pick(rng, failModes)))
		}
	case "partial-adv":
		span(6, 40)
		mid := ts.Start + (ts.End-ts.Start)/2
		lo := peer(0, mServe)
		lo.Adv = mid
		lo.LatencyMs = 2
		for h := ts.Start; h <= mid; h++ {
			if rng.Chance(40) {
				lo.Except[h] = lib.Pick(rng, failModes)
			}
		}
		hi := peer(1, mSlow)
		hi.LatencyMs = 30
		hi.DelayMs = rng.Range(60, 250)
		for h := mid + 1; h <= ts.End; h++ {
			if rng.Chance(40) {
				hi.Except[h] = lib.Pick(rng, failModes)
			}
		}
		g := peer(2, mServe)
		g.LatencyMs = 600
		g.DelayMs = lib.Pick(rng, []int{0, 50})
		ts.Peers = append(ts.Peers, lo, hi, g)
	case "stall":
		span(1, 2)
		s := peer(0, mStall)
		s.LatencyMs = 1
		if rng.Bool() { // stalls on one height only
			s.Default = mServe
			s.Except[ts.Start] = mStall
		}
		g := peer(1, mServe)
		g.LatencyMs = 300
		ts.Peers = append(ts.Peers, s, g)
	case "all-bad":
		span(1, 3)
		for i := 0; i < rng.Range(1, 3); i++ {
			ts.Peers = append(ts.Peers, peer(i, lib.Pick(rng, failModes)))
		}
	case "single-peer":
		span(1, 12)
		p := peer(0, mServe)
		for h := ts.Start; h <= ts.End; h++ {
			if rng.Chance(35) {
				p.Except[h] = lib.Pick(rng, failModes)
			}
		}
		p.Except[ts.Start+int64(rng.Intn(int(ts.End-ts.Start+1)))] = lib.Pick(rng, failModes)
		ts.Peers = append(ts.Peers, p)
	case "unadvertised":
		span(2, 4)
		p := peer(0, mServe)
		p.Adv = ts.End - 1 // the last height is above every advertised height
		ts.Peers = append(ts.Peers, p)
	case "slot-starvation":
		// one slow serving peer behind the per-peer job limit (20 while >= 7 peers are listed: six more peers are given
		// but advertise nothing in range): the heights of the last round exhaust the 50 x 400 ms retries of the first
		// pass and are delivered by the re-download pass only
		ts.End = ts.Start + 102
		g := peer(0, mSlow)
		g.DelayMs = 4500
		ts.Peers = append(ts.Peers, g)
		for i := 1; i <= 6; i++ {
			p := peer(i, mServe)
			p.Adv = ts.Start - 1
			ts.Peers = append(ts.Peers, p)
		}
	case "big-range":
		span(90, 150)
		np := rng.Range(2, 4)
		for i := 0; i < np; i++ {
			p := peer(i, lib.Pick(rng, []string{mServe, mSlow}))
			p.DelayMs = lib.Pick(rng, []int{0, 20, 60})
			for h := ts.Start; h <= ts.End; h++ {
				if rng.Chance(8) {
					p.Except[h] = lib.Pick(rng, failModes)
				}
			}
			ts.Peers = append(ts.Peers, p)
		}
		ts.Peers[np-1].Except = map[int64]string{} // one peer serves everything
		ts.Peers[np-1].LatencyMs = 700
	default: // random
		span(1, 50)
		np := rng.Range(1, 8)
		for i := 0; i < np; i++ {
			p := peer(i, lib.Pick(rng, append([]string{mServe, mServe, mSlow, mWrongH}, failModes...)))
			p.WrongBy = lib.Pick(rng, []int64{1, -1, 7})
			p.DelayMs = lib.Pick(rng, []int{0, 0, 15, 60, 200})
			for h := ts.Start; h <= ts.End; h++ {
				if rng.Chance(25) {
					p.Except[h] = lib.Pick(rng, append([]string{mServe, mWrongH}, failModes...))
				}
			}
			ts.Peers = append(ts.Peers, p)
		}
	}
	for i := range ts.Peers {
		if len(ts.Peers[i].Except) == 0 {
			ts.Peers[i].Except = nil
		}
	}
	return ts
}

func kindOf(i int, quick bool) string {
	kinds := []string{"one-good", "complementary", "wrong-height", "partial-adv", "single-peer", "random", "healthy", "all-bad",
		"complementary", "partial-adv", "random", "big-range", "one-good", "wrong-height", "random", "stall"}
	k := kinds[i%len(kinds)]
	if !quick && i%64 == 47 {
		k = "unadvertised"
	}
	if quick && i == 31 {
		k = "unadvertised"
	}
	if (quick && i == 30) || (!quick && i%64 == 30) {
		k = "slot-starvation"
	}
	return k
}

func run(c *lib.Ctx) {
	c.Rule("task i = PRNG-generated (height range, 1-8 scripted fake peers: per-height reply mode serve/slow/refuse/close/empty/nil-message/wrong-kind/nil-block/garbage/truncated/over-long/bad-header/wrong-height/stall, " +
		"advertised height, reply delay, recorded latency = selection order), kinds: one good peer behind failing ones, complementary availability, wrong-height peer asked first, partial availability by advertised height with slow peers, " +
		"single peer failing some heights, stalling peer, nothing servable, 90-150 heights (per-peer job limit), unadvertised height, slot starvation (slow peer behind the job limit: last heights only delivered by the re-download pass), random. Every task is executed by the real handleEventDownloadBlock (EventFetchBlocks) of one node per child, plain and under -race. " +
		"Offline checker over the log (requests each peer saw, peer selections with pass flag from the hook, EventSyncBlock at the fake blockchain): (1) every height with >= 1 peer that advertises and serves it is delivered with the served block by the time the task returns; " +
		"(2) no (peer,height) pair is asked again after that peer failed that height in the task; (3) the task returns within 30 s + 2 x worst-case retry budget (10 s per stalled request and pass, 21 s per pass for an unadvertised height). " +
		"non-trivial = >= 1 request failed and >= 1 height was delivered after a failed request for it (failover observed); fingerprint = task spec")
	c.Assume("a peer 'serves' height h iff its advertised height is >= h and its script answers h with the block (immediately or after its delay); scripts are deterministic per (peer, height)",
		"termination clause restated as bounded; when the bound expires the goroutines of the downloader that are still blocked are dumped: blocked ones => violation, none => inconclusive",
		"race reports decide only when both accesses are in system/p2p/dht/protocol/download/")
	nPlain, nRace := c.N(32, 400), c.N(16, 120)
	type job struct {
		race  bool
		tasks []taskSpec
	}
	var jobs []job
	mk := func(n int, stream string, per int, race bool, base int) {
		var cur []taskSpec
		for i := 0; i < n; i++ {
			idx := base + i
			if c.Skip(idx) {
				continue
			}
			rng := c.CaseRng(stream, i)
			kind := kindOf(i, c.Quick())
			if race && (kind == "slot-starvation" || kind == "unadvertised") {
				kind = "random"
			}
			cur = append(cur, genTask(rng, idx, kind))
			if len(cur) == per {
				jobs = append(jobs, job{race, cur})
				cur = nil
			}
		}
		if len(cur) > 0 {
			jobs = append(jobs, job{race, cur})
		}
	}
	per := 2
	if !c.Quick() {
		per = 8
	}
	mk(nPlain, "task", per, false, 0)
	mk(nRace, "racetask", per, true, 100000)
	// long jobs first
	sort.SliceStable(jobs, func(a, b int) bool { return weight(jobs[a].tasks) > weight(jobs[b].tasks) })
	var mu sync.Mutex
	raceDeciding := map[string]string{}
	raceOther := map[string]int{}
	lib.Parallel(len(jobs), 16, func(j int) {
		jb := jobs[j]
		in := childIn{Seed: uint64(c.Seed), Tasks: jb.tasks}
		dir := filepath.Join(c.Tmp, "cases")
		os.MkdirAll(dir, 0o755)
		bs, _ := json.Marshal(in)
		os.WriteFile(filepath.Join(dir, fmt.Sprintf("job-%d.json", j)), bs, 0o644)
		res := c.Child("node", in, lib.ChildOpts{Race: jb.race, Timeout: 25 * time.Minute})
		mu.Lock()
		defer mu.Unlock()
		c.Count("children", 1)
		if jb.race {
			c.Count("children_race", 1)
			reports := lib.ParseRaceLogs(res.RaceLogs)
			c.Count("race_reports", int64(len(reports)))
			for _, r := range reports {
				a, b := innerRepoFrame(r.Frames[0]), innerRepoFrame(r.Frames[1])
				ks := []string{a, b}
				sort.Strings(ks)
				key := ks[0] + " <-> " + ks[1]
				if strings.Contains(a, "dht/protocol/download/") && strings.Contains(b, "dht/protocol/download/") {
					if _, ok := raceDeciding[key]; !ok {
						raceDeciding[key] = r.Text
						c.Violation(jb.tasks[0].Idx, "race:"+raceShape(key), map[string]any{"tasks": jb.tasks, "report": r.Text}, "data race inside the downloader: %s\n%s", key, r.Text)
					}
				} else {
					raceOther[key]++
				}
			}
		}
		if res.TimedOut {
			c.Inconclusive("child of tasks %d..: watchdog fired after %d ms", jb.tasks[0].Idx, res.WallMs)
			return
		}
		var out childOut
		if res.Out == nil || json.Unmarshal(res.Out, &out) != nil || (res.Died && res.ExitCode != 66) {
			c.Violation(jb.tasks[0].Idx, "crash:"+crashShape(res.Stderr), map[string]any{"tasks": jb.tasks, "stderr": res.Stderr},
				"node process died (exit %d) while downloading from scripted peers: %s", res.ExitCode, firstLines(res.Stderr, 14))
			return
		}
		byIdx := map[int]taskSpec{}
		for _, t := range jb.tasks {
			byIdx[t.Idx] = t
		}
		for _, to := range out.Tasks {
			ts := byIdx[to.Idx]
			if to.Fatal != "" {
				c.Inconclusive("task %d: %s", to.Idx, to.Fatal)
				continue
			}
			fs, st := checkTask(ts, to)
			if !to.Returned && to.HangFrames == "" {
				c.Inconclusive("task %d did not return within %d ms but no downloader goroutine stayed blocked in a stream exchange (still retrying)", to.Idx, to.BoundMs)
			}
			for _, f := range fs {
				c.Violation(to.Idx, f.Shape, f.Witness, "task %d (%s): %s", to.Idx, ts.Kind, f.Msg)
			}
			c.Count("tasks", 1)
			c.Count("tasks_"+ts.Kind, 1)
			if to.Returned {
				c.Count("tasks_returned", 1)
			}
			c.Count("task_wall_ms", to.WallMs)
			c.Count("heights_servable", int64(st.Servable))
			c.Count("heights_delivered", int64(st.Delivered))
			c.Count("requests_failed", int64(st.Failures))
			c.Count("heights_delivered_after_failover", int64(st.Failovers))
			c.Count("redownload_picks", int64(st.ReDownloads))
			c.Count("wrong_blocks_forwarded", int64(st.WrongForwards))
			c.Count("selections_without_available_peer", int64(st.NoPick))
			tot := 0
			for p, n := range st.Requests {
				c.Count("requests_seen_peer_"+p, int64(n))
				tot += n
			}
			c.Count("requests_seen_total", int64(tot))
			c.Seen("interleavings", st.PickOrderFP)
			for _, e := range to.Events {
				if e.Ev == "req" {
					c.Seen("reply_modes", e.Mode)
				}
			}
			c.Case(lib.Fingerprint(ts), st.Failures > 0 && st.Failovers > 0, map[string]any{"task": compact(ts), "requests": st.Requests, "delivered": st.Delivered, "servable": st.Servable, "failovers": st.Failovers, "wall_ms": to.WallMs})
		}
	})
	c.Extra("race_reports_deciding", len(raceDeciding))
	c.Extra("race_reports_other", raceOther)
	if c.Replay == "" {
		c.RequireEvents("heights_delivered", 200)
		c.RequireEvents("requests_failed", 50)
		c.RequireEvents("heights_delivered_after_failover", 20)
	}
}

func weight(ts []taskSpec) int {
	w := 0
	for _, t := range ts {
		switch t.Kind {
		case "unadvertised", "slot-starvation":
			w += 50
		case "stall":
			w += 25
		default:
			w++
		}
	}
	return w
}

func compact(ts taskSpec) any {
	var ps []string
	for _, p := range ts.Peers {
		ps = append(ps, fmt.Sprintf("%s:%s+%dexc,adv=%d,lat=%d,delay=%d", p.Name, p.Default, len(p.Except), p.Adv, p.LatencyMs, p.DelayMs))
	}
	return map[string]any{"idx": ts.Idx, "kind": ts.Kind, "range": []int64{ts.Start, ts.End}, "peers": ps}
}

func innerRepoFrame(frames []string) string {
	for _, f := range frames {
		if strings.Contains(f, "/system/p2p/dht/") && !strings.Contains(f, "verif_on.go") {
			return f
		}
	}
	for _, f := range frames {
		if strings.Contains(f, "chain33") || strings.Contains(f, "/repo/") {
			return f
		}
	}
	if len(frames) > 0 {
		return frames[0]
	}
	return "?"
}

func raceShape(key string) string {
	// function names only (no paths)
	var fs []string
	for _, part := range strings.Split(key, " <-> ") {
		if i := strings.Index(part, "@"); i > 0 {
			part = part[:i]
		}
		if i := strings.LastIndex(part, "/"); i >= 0 {
			part = part[i+1:]
		}
		fs = append(fs, part)
	}
	return strings.Join(fs, "<->")
}

func crashShape(stderr string) string {
	for _, l := range strings.Split(stderr, "\n") {
		if strings.HasPrefix(l, "panic:") || strings.HasPrefix(l, "fatal error:") {
			l = strings.TrimSpace(l)
			if len(l) > 60 {
				l = l[:60]
			}
			return strings.ReplaceAll(l, " ", "_")
		}
	}
	return "unknown"
}

func firstLines(s string, n int) string {
	ls := strings.Split(s, "\n")
	if len(ls) > n {
		ls = ls[:n]
	}
	return strings.Join(ls, "\n")
}
