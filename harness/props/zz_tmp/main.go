package main

import (
	"fmt"

	dbm "github.com/33cn/chain33/common/db"
	"github.com/33cn/chain33/types"
)

func main() {
	raw, _ := dbm.NewGoMemDB("", "", 0)
	ldb := dbm.NewLocalDB(raw, false)
	m := dbm.NewSimpleMVCC(ldb)
	h := []byte("hash0hash0hash0hash0hash0hash0xx")
	kvs, err := m.AddMVCC([]*types.KeyValue{{Key: []byte("k"), Value: []byte("v")}}, h, nil, 0)
	fmt.Println(err)
	ldb.Begin()
	for _, kv := range kvs {
		fmt.Printf("%q=%q\n", kv.Key, kv.Value)
		ldb.Set(kv.Key, kv.Value)
	}
	v, err := m.GetVersion(h)
	fmt.Println("getversion", v, err)
	mv, err := m.GetMaxVersion()
	fmt.Println("max", mv, err)
	l, err := m.GetDelKVList(0)
	fmt.Println("kl", l, err)
	_, err = m.DelMVCC(h, 0, true)
	fmt.Println("del", err)
	ldb.Commit()
	_, err = m.DelMVCC(h, 0, true)
	fmt.Println("del after commit", err)
}
