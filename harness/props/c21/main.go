// C21: mempool bookkeeping stays consistent.
//
// The REAL mempool module runs on a real queue (verifharness/mpenv). Sequential mode applies generated event
// histories one event at a time and, after every event, evaluates the structural invariants on a snapshot taken
// under the pool's own lock (VerifSnapshot) and compares contents / latest-tx list / per-sender lists / header
// with a shadow model. Concurrent mode (-race build) runs 16 submitters + block producer + remover + querier and
// evaluates the invariants while everything is in flight and the contents at quiescent points.
package main

import (
	"encoding/json"
	"os"
	"sort"
	"strings"
	"sync"
	"time"

	"github.com/33cn/chain33/types"
	"verifharness/lib"
)

func init() {
	lib.RegisterChild("seq", runSeq)
	lib.RegisterChild("conc", runConc)
}

// findCollision searches two transactions of the collTx family whose hashes agree in the first 5 bytes (the
// short hash). Deterministic (independent of the seed); ~2^20 hashes.
func findCollision() (a, b int64, tried int64) {
	// found by the search below (3 764 851 hashes); verified on every run, searched again only if the
	// transaction encoding changed
	a, b = 1324631, 3764851
	ha, hb := collTx(a).Hash(), collTx(b).Hash()
	if types.CalcTxShortHash(ha) == types.CalcTxShortHash(hb) && string(ha) != string(hb) {
		return a, b, 2
	}
	seen := make(map[[5]byte]int64, 1<<21)
	for n := int64(1); n < 1<<24; n++ {
		h := collTx(n).Hash()
		var k [5]byte
		copy(k[:], h[:5])
		if o, ok := seen[k]; ok {
			return o, n, n
		}
		seen[k] = n
	}
	return 0, 0, 1 << 24
}

func repoRoot() string {
	if r := os.Getenv("VERIF_REPO"); r != "" {
		return strings.TrimRight(r, "/")
	}
	return "/repo"
}

// raceVerdict: a report decides C21 when, on both stacks, the innermost frame that belongs to the repository
// (skipping the generic containers common/listmap and common/skiplist the pool's structures are made of, and
// never a verification hook) lies in system/mempool/.
func raceVerdict(reports []lib.RaceReport) (deciding map[string]string, other map[string]int, hook int) {
	root := repoRoot() + "/"
	deciding, other = map[string]string{}, map[string]int{}
	owner := func(frames []string) (string, bool) {
		for _, f := range frames {
			i := strings.LastIndex(f, "@")
			path := f[i+1:]
			if !strings.HasPrefix(path, root) {
				continue
			}
			if strings.HasSuffix(path, "verif_on.go") {
				return f, true
			}
			rel := strings.TrimPrefix(path, root)
			if strings.HasPrefix(rel, "common/listmap/") || strings.HasPrefix(rel, "common/skiplist/") {
				continue
			}
			return strings.Replace(f, root, "", 1), false
		}
		return "?", false
	}
	for _, r := range reports {
		a, ha := owner(r.Frames[0])
		b, hb := owner(r.Frames[1])
		if ha || hb {
			hook++
			continue
		}
		ks := []string{a, b}
		sort.Strings(ks)
		key := ks[0] + " <-> " + ks[1]
		// every race whose one side runs inside eventGetMempool has the same cause (it walks the cache without
		// taking the pool lock): one key for all of them
		for _, st := range r.Frames {
			for _, f := range st {
				if strings.Contains(f, "(*Mempool).eventGetMempool@") {
					key = "eventGetMempool-unlocked"
				}
			}
		}
		if key == "eventGetMempool-unlocked" {
			if _, ok := deciding[key]; !ok {
				deciding[key] = r.Text
			}
			continue
		}
		if strings.Contains(a, "@system/mempool/") && strings.Contains(b, "@system/mempool/") {
			if _, ok := deciding[key]; !ok {
				deciding[key] = r.Text
			}
		} else {
			other[key]++
		}
	}
	return
}

// raceShape turns a deciding frame pair into a stable shape: function names only.
func raceShape(key string) string {
	if key == "eventGetMempool-unlocked" {
		return "race:eventGetMempool-unlocked"
	}
	parts := strings.Split(key, " <-> ")
	for i, p := range parts {
		if j := strings.Index(p, "@"); j >= 0 {
			p = p[:j]
		}
		if j := strings.LastIndex(p, "/"); j >= 0 {
			p = p[j+1:]
		}
		p = strings.NewReplacer("(*", "", ")", "", "mempool.", "").Replace(p)
		parts[i] = p
	}
	sort.Strings(parts)
	return "race:" + strings.Join(parts, "<->")
}

func run(c *lib.Ctx) {
	c.Rule("sequential: one child per generated history (capacity 1-8 or roomy, per-sender limit 1-3, latest-list 1-3, simple queue or score queue); " +
		"events: submissions (new/duplicate/resubmitted/bad signature/low fee/expired/bad recipient/groups/eth-signed), block add (incl. stale height), " +
		"rollback (incl. not-tip), explicit removal (present/absent/random hashes), ageing + expiry sweeps, queries; after EVERY event VerifSnapshot (under the pool lock) is " +
		"checked against the structural invariants and the shadow model. concurrent (-race): 16 submitters + block producer + remover + querier + monitor, invariants in flight, " +
		"contents at quiescent points. non-trivial history = measured: >=1 admission AND >=1 rejected push AND >=1 removal by block AND (>=1 expiry removal OR >=1 rollback re-add); " +
		"distinct_nontrivial counts distinct (config, event-count vector) fingerprints of such histories")
	c.Assume("the queue delivers events sent by one client on the high-priority channel in send order (used as barrier for reply-less block events)",
		"concurrent mode puts only settled transactions (no submission in flight) into blocks: the fate of a submission overlapping its own block is not determined by the history",
		"score queue = harness adapter over the repository's common/skiplist.Queue (as the price/score mempool plugins do); it is not part of the repository",
		"pool-age expiry is produced by VerifSetEnterTime(now-10*limit); no oracle reads the clock")

	nSeq := c.N(60, 800)
	nConc := c.N(4, 16)
	repeats := c.N(3, 10)
	if os.Getenv("VERIF_SCALE") != "" && repeats < 1 {
		repeats = 1
	}

	var mu sync.Mutex
	type caseRes struct {
		cfg histCfg
		out histOut
	}
	// --- special scripted scenarios (index 0, 1) + generated histories
	var cfgs []histCfg
	collA, collB, tried := int64(0), int64(0), int64(0)
	if c.OnlyIdx < 0 || c.OnlyIdx == 1 {
		t := time.Now()
		collA, collB, tried = findCollision()
		c.Extra("shorthash_collision_search", map[string]any{"hashes_tried": tried, "nonce_a": collA, "nonce_b": collB, "ms": time.Since(t).Milliseconds()})
	}
	// index 0: a roomy score-ordered queue. (An evicting score queue would be a harness-written QueueCache: no queue in
	// this repository evicts inside Push, so behaviour under eviction is not chain33's and is not judged.)
	cfgs = append(cfgs, histCfg{Idx: 0, Seed: c.CaseRng("hist", 0).U64(), Cap: 8, PerAcc: 2, LastMax: 2, Queue: "score", NSenders: 3, NEvents: 300})
	cfgs = append(cfgs, histCfg{Idx: 1, Cap: 4, PerAcc: 2, LastMax: 2, Queue: "simple", NSenders: 2, Special: "shash", CollA: collA, CollB: collB})
	for i := 2; i < nSeq+2; i++ {
		rng := c.CaseRng("hist", i)
		hc := histCfg{Idx: i, Seed: rng.U64()}
		hc.NSenders = rng.Range(2, 5)
		hc.PerAcc = rng.Range(1, 3)
		hc.LastMax = rng.Range(1, 3)
		hc.Cap = rng.Range(1, 8)
		hc.NEvents = rng.Range(200, 600)
		if !c.Quick() {
			hc.NEvents = rng.Range(200, 2000)
		}
		if rng.Chance(35) {
			hc.NEth = rng.Range(1, 2)
		}
		switch rng.Intn(10) {
		case 0, 1: // score queue with room for every sender's full quota: order/removal without eviction
			hc.Queue = "score"
			hc.Cap = (hc.NSenders + hc.NEth) * hc.PerAcc
		case 2: // another roomy score queue (see index 0: evicting queues are not part of this repository)
			hc.Queue = "score"
			hc.Cap = (hc.NSenders+hc.NEth)*hc.PerAcc + rng.Intn(3)
		case 3: // roomy simple queue: the per-sender limit is the binding constraint
			hc.Queue = "simple"
			hc.Cap = rng.Range(9, 40)
		default:
			hc.Queue = "simple"
		}
		cfgs = append(cfgs, hc)
	}
	var results []caseRes
	concDone := make(chan struct{})
	go func() { defer close(concDone); runConcurrent(c, &mu, nConc, repeats) }()
	lib.Parallel(len(cfgs), 9, func(k int) {
		hc := cfgs[k]
		if c.Skip(hc.Idx) {
			return
		}
		res := c.Child("seq", hc, lib.ChildOpts{Timeout: 6 * time.Minute})
		if res.TimedOut || res.Died {
			if res.TimedOut {
				c.Inconclusive("sequential history %d: watchdog", hc.Idx)
			} else {
				// the pool (or the harness) crashed while applying a history: that is a finding about the history
				c.Violation(hc.Idx, "crash", map[string]any{"config": hc, "stderr": res.Stderr}, "history %d killed the process (exit %d): %s", hc.Idx, res.ExitCode, firstLines(res.Stderr, 12))
			}
			return
		}
		var out histOut
		if err := json.Unmarshal(res.Out, &out); err != nil {
			c.Inconclusive("history %d: unreadable child output", hc.Idx)
			return
		}
		mu.Lock()
		results = append(results, caseRes{hc, out})
		mu.Unlock()
	})
	sort.Slice(results, func(i, j int) bool { return results[i].cfg.Idx < results[j].cfg.Idx })
	var wall int64
	for _, r := range results {
		hc, out := r.cfg, r.out
		wall += out.WallMs
		if out.Incon != "" {
			c.Inconclusive("history %d: %s", hc.Idx, out.Incon)
		}
		var total int64
		for k, v := range out.Events {
			c.Count("seq."+k, v)
			if !strings.HasPrefix(k, "reject:") && !strings.Contains(k, "_by_") && !strings.HasPrefix(k, "expired_at") && k != "tx_admitted" && k != "tx_rejected" && k != "score_evictions" {
				total += v
			}
		}
		c.Count("seq.events_total", total)
		c.Count("snapshots_evaluated", out.Snapshots)
		c.Count("seq.snapshots", out.Snapshots)
		for _, s := range out.States {
			c.Seen("pool_states", s)
		}
		for _, v := range out.Violations {
			c.Violation(hc.Idx, v.Shape, map[string]any{"config": hc, "event": v.Event, "history": v.Trace, "message": v.Msg},
				"history %d (%s cap=%d perSender=%d last=%d) event %d: %s", hc.Idx, hc.Queue, hc.Cap, hc.PerAcc, hc.LastMax, v.Event, v.Msg)
		}
		ev := out.Events
		pushRejected := ev["reject:ErrManyTx"]+ev["reject:ErrMemFull"]+ev["reject:ErrTxExist"] > 0
		nontrivial := ev["tx_admitted"] > 0 && pushRejected && ev["removed_by_block"] > 0 &&
			(ev["expired_at_block"]+ev["expired_at_sweep"] > 0 || ev["readded_by_rollback"] > 0)
		if hc.Special != "" {
			nontrivial = len(out.Violations) > 0 || ev["tx_admitted"] >= 2
		}
		fp := lib.Fingerprint(map[string]any{"q": hc.Queue, "cap": hc.Cap, "per": hc.PerAcc, "last": hc.LastMax, "ev": out.Events, "sp": hc.Special})
		var sample any
		if nontrivial && hc.Special == "" {
			sample = map[string]any{"history": hc.Idx, "queue": hc.Queue, "capacity": hc.Cap, "per_sender": hc.PerAcc, "last": hc.LastMax,
				"events": out.Events, "snapshots": out.Snapshots, "max_pool": out.MaxPool}
		}
		c.Case(fp, nontrivial, sample)
	}
	c.Extra("seq_child_wall_ms_sum", wall)
	<-concDone
	c.Extra("score_queue", "harness adapter over common/skiplist.Queue (not part of the repository)")
	c.Extra("tx_size_example", types.Size(collTx(1)))
	c.RequireEvents("seq.events_total", 2000)
	c.RequireEvents("snapshots_evaluated", 2000)
	c.RequireEvents("seq.removed_by_block", 20)
	c.RequireEvents("conc.tx_admitted", 100)
}

// runConcurrent: concurrent mode under the race detector (runs alongside the sequential histories).
func runConcurrent(c *lib.Ctx, mu *sync.Mutex, nConc, repeats int) {
	tSeq := time.Now()
	var concWall int64
	raceBin := os.Getenv("VERIF_RACE_BIN") != ""
	if c.OnlyIdx < 0 || c.OnlyIdx >= 100000 {
		type job struct {
			idx int
			cfg concCfg
		}
		var jobs []job
		for i := 0; i < nConc; i++ {
			for r := 0; r < repeats; r++ {
				idx := 100000 + i*100 + r
				rng := c.CaseRng("conc", idx)
				cc := concCfg{Idx: idx, Seed: rng.U64(), Cap: rng.Range(60, 200), PerAcc: rng.Range(2, 5), LastMax: rng.Range(1, 4),
					Rounds: 3, Submitters: 16, PerRound: rng.Range(12, 24)}
				if !c.Quick() {
					cc.Rounds = 5
				}
				jobs = append(jobs, job{idx, cc})
			}
		}
		allDeciding := map[string]string{}
		firstIdx := map[string]int{}
		lib.Parallel(len(jobs), 6, func(k int) {
			j := jobs[k]
			if c.Skip(j.idx) {
				return
			}
			res := c.Child("conc", j.cfg, lib.ChildOpts{Race: raceBin, Timeout: 8 * time.Minute})
			defer os.RemoveAll(res.Dir)
			if res.TimedOut {
				c.Inconclusive("concurrent run %d: watchdog", j.idx)
				return
			}
			// the race runtime turns exit status 0 into 66 when it printed a report; the child's output is complete then
			if res.Died && !(res.ExitCode == 66 && len(res.Out) > 0) {
				c.Violation(j.idx, "crash-concurrent", map[string]any{"config": j.cfg, "stderr": res.Stderr},
					"concurrent run %d killed the process (exit %d): %s", j.idx, res.ExitCode, firstLines(res.Stderr, 14))
				return
			}
			var out concOut
			if err := json.Unmarshal(res.Out, &out); err != nil {
				c.Inconclusive("concurrent run %d: unreadable child output", j.idx)
				return
			}
			if out.Incon != "" {
				c.Inconclusive("concurrent run %d: %s", j.idx, out.Incon)
			}
			var total int64
			for k, v := range out.Events {
				c.Count("conc."+k, v)
				if !strings.HasPrefix(k, "reject:") && !strings.HasPrefix(k, "judged") && k != "block_txs" {
					total += v
				}
			}
			mu.Lock()
			concWall += out.WallMs
			mu.Unlock()
			c.Count("conc.events_total", total)
			c.Count("conc.snapshots_in_flight", out.Snapshots-out.Quiescent)
			c.Count("conc.quiescent_points", out.Quiescent)
			c.Count("snapshots_evaluated", out.Snapshots)
			for _, s := range out.States {
				c.Seen("pool_states", s)
			}
			for _, v := range out.Violations {
				c.Violation(j.idx, v.Shape, map[string]any{"config": j.cfg, "message": v.Msg}, "concurrent run %d (cap=%d perSender=%d): %s", j.idx, j.cfg.Cap, j.cfg.PerAcc, v.Msg)
			}
			reports := lib.ParseRaceLogs(res.RaceLogs)
			dec, oth, hook := raceVerdict(reports)
			c.Count("race.reports", int64(len(reports)))
			c.Count("race.reports_through_hooks_ignored", int64(hook))
			mu.Lock()
			for k, t := range dec {
				if _, ok := allDeciding[k]; !ok {
					allDeciding[k] = t
					firstIdx[k] = j.idx
				}
			}
			for k, n := range oth {
				c.Seen("race_non_deciding", k)
				_ = n
			}
			mu.Unlock()
			ev := out.Events
			nontrivial := ev["tx_admitted"] > 0 && ev["tx_rejected"] > 0 && ev["addblock"] > 0 && ev["judged_must_be_present"] > 0 && ev["judged_must_be_absent"] > 0
			c.Case(lib.Fingerprint(map[string]any{"conc": j.idx, "ev": ev}), nontrivial, nil)
		})
		keys := make([]string, 0, len(allDeciding))
		for k := range allDeciding {
			keys = append(keys, k)
		}
		sort.Strings(keys)
		for _, k := range keys {
			c.Violation(firstIdx[k], raceShape(k), map[string]any{"frames": k, "report": allDeciding[k]},
				"data race between two accesses owned by system/mempool: %s\n%s", k, firstLines(allDeciding[k], 40))
		}
		c.Count("race.deciding_pairs", int64(len(keys)))
		c.Extra("race_build_used", raceBin)
		c.Extra("conc_child_wall_ms_sum", concWall)
		c.Extra("conc_phase_wall_ms", time.Since(tSeq).Milliseconds())
		if !raceBin {
			c.Inconclusive("no -race binary (VERIF_RACE_BIN unset): schedules not decided")
		}
	}
}

func firstLines(s string, n int) string {
	ls := strings.Split(s, "\n")
	if len(ls) > n {
		ls = ls[:n]
	}
	return strings.Join(ls, "\n")
}

func main() { lib.Main("C21", "exploration", run) }
