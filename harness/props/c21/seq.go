package main

import (
	"encoding/json"
	"fmt"
	"sort"
	"strings"
	"time"

	"github.com/33cn/chain33/system/mempool"
	"github.com/33cn/chain33/types"
	"verifharness/lib"
	"verifharness/mpenv"
)

// histCfg is the input of one sequential history (child mode "seq").
type histCfg struct {
	Idx      int
	Seed     uint64
	Cap      int
	PerAcc   int
	LastMax  int
	Queue    string // simple | score
	NEvents  int
	NSenders int
	NEth     int
	Special  string // "" | "evict-min" | "shash" (scripted minimal scenarios)
	CollA    int64  // nonces of two colliding transactions (Special=shash)
	CollB    int64
}

type viol struct {
	Shape string
	Msg   string
	Event int
	Trace []string
}

type histOut struct {
	Events     map[string]int64
	Snapshots  int64
	States     []string
	Violations []viol
	Incon      string
	MaxPool    int
	Flags      map[string]bool // measured: what the history actually exercised
	WallMs     int64
}

type hist struct {
	cfg    histCfg
	rng    *lib.Rng
	env    *mpenv.Env
	m      *model
	keys   []*mpenv.Key
	ethN   map[string]int64 // next nonce per eth sender
	all    []*mtx
	byHash map[string]*mtx
	out    *histOut
	trace  []string
	states map[string]bool
	nonce  int64
	stop   bool
	memFul int
	evNo   int
}

func (h *hist) ev(kind string) { h.out.Events[kind]++ }

func (h *hist) logf(f string, a ...interface{}) {
	h.trace = append(h.trace, fmt.Sprintf("%d:", h.evNo)+fmt.Sprintf(f, a...))
}

func (h *hist) violate(shape, f string, a ...interface{}) {
	tr := h.trace
	if len(tr) > 400 {
		tr = append([]string{fmt.Sprintf("…(%d earlier events omitted)", len(tr)-400)}, tr[len(tr)-400:]...)
	}
	if len(h.out.Violations) < 8 {
		h.out.Violations = append(h.out.Violations, viol{Shape: shape, Msg: fmt.Sprintf(f, a...), Event: h.evNo, Trace: append([]string{}, tr...)})
	}
	h.stop = true
}

// --- transaction generation -------------------------------------------------------------------

func (h *hist) newSingle(k *mpenv.Key, feeMul int64, expire int64, desc string) *mtx {
	h.nonce++
	n := h.nonce
	if k.Eth {
		n = h.ethN[k.Addr]
		h.ethN[k.Addr]++
		if h.rng.Chance(10) && n > 0 {
			n-- // a nonce that may already be pending
			h.ethN[k.Addr]--
		}
	}
	to := lib.Pick(h.rng, h.keys).Addr
	tx := mpenv.Transfer(to, 1+h.nonce, rate*feeMul, expire, n) // the amount makes equal-nonce eth txs distinct
	k.Sign(tx)
	t := &mtx{ID: len(h.all), Pool: tx, Members: []*types.Transaction{tx}, Hash: mpenv.H(tx), From: k.Addr, Fee: tx.Fee,
		Bytes: int64(types.Size(tx)), Expires: []int64{expire}, Eth: k.Eth}
	t.FeeOK = tx.Fee >= mpenv.MinFee(tx, rate) && tx.Fee <= maxFee
	t.Score = mpenv.Score(tx)
	t.Desc = fmt.Sprintf("tx#%d(%s fee=%dx exp=%d %s)", t.ID, k.Name, feeMul, expire, desc)
	h.all = append(h.all, t)
	h.byHash[t.Hash] = t
	return t
}

func (h *hist) newGroup(n int, feeMul int64, expires []int64) *mtx {
	var ms []*types.Transaction
	var ks []*mpenv.Key
	for i := 0; i < n; i++ {
		h.nonce++
		k := h.keys[h.rng.Intn(h.cfg.NSenders)] // normal senders only
		ks = append(ks, k)
		ms = append(ms, mpenv.Transfer(lib.Pick(h.rng, h.keys).Addr, 1, 0, expires[i], h.nonce))
	}
	// a generous head fee first, then the exact multiple of the minimum
	g, _ := mpenv.MakeGroup(ms, ks, rate*int64(n)*2)
	fee := mpenv.GroupMinFee(g, rate) * feeMul
	g, ptx := mpenv.MakeGroup(ms, ks, fee)
	t := &mtx{ID: len(h.all), Pool: ptx, Members: g.Txs, Hash: mpenv.H(ptx), From: ks[0].Addr, Fee: ptx.Fee,
		Bytes: int64(types.Size(ptx)), Expires: expires}
	t.FeeOK = fee >= mpenv.GroupMinFee(g, rate) && fee <= maxFee
	t.Score = mpenv.Score(ptx)
	t.Desc = fmt.Sprintf("group#%d(n=%d head=%s fee=%dx exp=%v)", t.ID, n, ks[0].Name, feeMul, expires)
	h.all = append(h.all, t)
	h.byHash[t.Hash] = t
	return t
}

// refresh recomputes the derived fields after the generator edited and re-signed t.Pool.
func (h *hist) refresh(t *mtx) {
	delete(h.byHash, t.Hash)
	t.Hash, t.Fee, t.Bytes = mpenv.H(t.Pool), t.Pool.Fee, int64(types.Size(t.Pool))
	t.FeeOK = t.Pool.Fee >= mpenv.MinFee(t.Pool, rate) && t.Pool.Fee <= maxFee
	t.Score = mpenv.Score(t.Pool)
	h.byHash[t.Hash] = t
}

// pickExpire: 0 = never; a height a few blocks ahead; a block time a few steps ahead.
func (h *hist) pickExpire() int64 {
	switch h.rng.Intn(10) {
	case 0, 1, 2:
		return h.m.height + 2 + int64(h.rng.Intn(4))
	case 3, 4:
		return h.m.btime + 1 + int64(h.rng.Intn(40))
	}
	return 0
}

func (h *hist) genTx() *mtx {
	feeMul := lib.Pick(h.rng, []int64{1, 1, 2, 3, 5, 8})
	if h.rng.Chance(12) {
		n := 2 + h.rng.Intn(2)
		ex := make([]int64, n)
		for i := range ex {
			if h.rng.Chance(30) {
				ex[i] = h.pickExpire()
			}
		}
		return h.newGroup(n, feeMul, ex)
	}
	k := lib.Pick(h.rng, h.keys)
	return h.newSingle(k, feeMul, h.pickExpire(), "")
}

// --- events ----------------------------------------------------------------------------------

func (h *hist) submit(t *mtx, kind string, tx *types.Transaction) {
	ok, text, err := h.env.SendTx(tx)
	if err != nil {
		h.out.Incon = "EventTx: " + err.Error()
		h.stop = true
		return
	}
	h.ev(kind)
	if !ok {
		h.ev("tx_rejected")
		h.out.Events["reject:"+normErr(text)]++
		if text == "ErrMemFull" {
			h.memFul++
		}
		h.logf("%s %s -> %s", kind, t.Desc, text)
		return
	}
	h.ev("tx_admitted")
	mErr, ev := h.m.push(t)
	h.logf("%s %s -> ok", kind, t.Desc)
	if mErr != "" {
		h.violate("admit-"+mErr, "pool answered ok to %s but the contents rules forbid the push: %s (pool size %d/%d, sender has %d/%d)",
			t.Desc, mErr, len(h.m.q), h.m.cap, h.m.countFrom(t.From), h.m.perAcc)
		return
	}
	if ev != nil {
		h.ev("score_evictions")
		h.out.Flags["evict"] = true
		h.checkAfter("evict", ev)
	}
}

func normErr(s string) string {
	if i := strings.Index(s, ":"); i > 0 {
		s = s[:i]
	}
	if len(s) > 40 {
		s = s[:40]
	}
	return s
}

func (h *hist) evSubmit() {
	full := len(h.m.q) >= h.m.cap
	r := h.rng.Intn(100)
	switch {
	case r < 55:
		if full && !h.m.score && !h.rng.Chance(12) {
			h.evQuery()
			return
		}
		if h.memFul > 30 && full {
			h.evQuery()
			return
		}
		t := h.genTx()
		h.submit(t, "tx_new", t.Pool)
	case r < 65: // duplicate of something in the pool
		if len(h.m.q) == 0 {
			return
		}
		t := lib.Pick(h.rng, h.m.q)
		h.submit(t, "tx_dup_pool", t.Pool)
	case r < 75: // something that is (or was) on the chain / was removed earlier: resubmission
		if len(h.all) == 0 {
			return
		}
		t := lib.Pick(h.rng, h.all)
		if full && !h.m.score && h.m.has(t.Hash) == nil && !h.rng.Chance(20) {
			return
		}
		h.submit(t, "tx_resubmit", t.Pool)
	case r < 82: // broken signature on a fresh tx
		t := h.genTx()
		bad := mpenv.Copy(t.Pool)
		if t.Pool.GroupCount == 0 {
			bad.Signature.Signature[len(bad.Signature.Signature)/2] ^= 0x40
		} else {
			var g types.Transactions
			types.Decode(bad.Header, &g)
			s := g.Txs[len(g.Txs)-1].Signature
			s.Signature[len(s.Signature)/2] ^= 0x40
			bad.Header = types.Encode(&g)
		}
		h.submit(t, "tx_badsig", bad)
	case r < 88: // fee below the minimum
		k := lib.Pick(h.rng, h.keys)
		t := h.newSingle(k, 1, 0, "lowfee")
		t.Pool.Fee = rate - 1 - int64(h.rng.Intn(1000))
		k.Sign(t.Pool)
		h.refresh(t)
		h.submit(t, "tx_lowfee", t.Pool)
	case r < 94: // already expired for the next block
		k := lib.Pick(h.rng, h.keys)
		exp := h.m.height + 1 - int64(h.rng.Intn(2))
		if exp < 1 || h.rng.Bool() {
			exp = h.m.btime - int64(h.rng.Intn(50))
		}
		t := h.newSingle(k, 1, exp, "expired")
		h.submit(t, "tx_expired", t.Pool)
	default: // invalid recipient
		k := lib.Pick(h.rng, h.keys)
		t := h.newSingle(k, 1, 0, "badto")
		t.Pool.To = lib.Pick(h.rng, []string{"notaddress", "", t.Pool.To[:len(t.Pool.To)-2] + "zz"})
		k.Sign(t.Pool)
		h.refresh(t)
		h.submit(t, "tx_badto", t.Pool)
	}
}

func (h *hist) onChain(t *mtx) bool {
	for _, b := range h.m.blocks {
		for _, u := range b.Units {
			if u == t {
				return true
			}
		}
	}
	return false
}

func (h *hist) evAddBlock() {
	m := h.m
	var units []*mtx
	used := map[*mtx]bool{}
	add := func(t *mtx) {
		if !used[t] && !h.onChain(t) {
			used[t] = true
			units = append(units, t)
		}
	}
	// some of the pool (in queue order, as a producer would), some never-submitted, some formerly seen
	for _, t := range m.q {
		if h.rng.Chance(45) {
			add(t)
		}
	}
	for n := h.rng.Intn(3); n > 0; n-- {
		if h.rng.Chance(50) {
			t := h.genTx()
			add(t)
		} else if len(h.all) > 0 {
			add(lib.Pick(h.rng, h.all))
		}
	}
	if h.rng.Chance(10) {
		units = nil
	}
	b := &types.Block{Version: 1, ParentHash: []byte("p"), TxHash: []byte("t"), StateHash: []byte("s")}
	for _, u := range units {
		b.Txs = append(b.Txs, u.Members...)
	}
	stale := h.rng.Chance(8) && m.height > 1
	if stale {
		// a block at a height the pool has already passed: transactions still leave, the header stays
		b.Height = m.height - int64(h.rng.Intn(2))
		b.BlockTime = m.btime - 5
		h.ev("addblock_stale_height")
	} else {
		b.Height = m.height + 1
		b.BlockTime = m.btime + int64(lib.Pick(h.rng, []int{1, 5, 15, 30}))
	}
	sizeBefore := len(m.q)
	rec := &blk{Raw: b, Units: units, ParentH: m.height, ParentT: m.btime}
	var err error
	if stale {
		// chain view unchanged apart from the transactions being on chain now
		h.env.Chain.Mu.Lock()
		for _, tx := range b.Txs {
			h.env.Chain.OnChain[string(tx.Hash())] = true
		}
		h.env.Chain.Mu.Unlock()
		err = h.env.Event(types.EventAddBlock, &types.BlockDetail{Block: b}, true)
	} else {
		err = h.env.AddBlock(b, true)
	}
	if err != nil {
		h.out.Incon = "EventAddBlock: " + err.Error()
		h.stop = true
		return
	}
	h.ev("addblock")
	if !stale {
		m.height, m.btime = b.Height, b.BlockTime
		m.blocks = append(m.blocks, rec)
	} else {
		// remember the units as on chain (never rolled back)
		m.blocks = append([]*blk{{Raw: b, Units: units, ParentH: -1}}, m.blocks...)
	}
	removed, swept := 0, 0
	if sizeBefore > 0 {
		for _, u := range units {
			if m.remove(u.Hash) {
				removed++
			}
		}
		swept = m.sweep()
	}
	h.out.Events["removed_by_block"] += int64(removed)
	h.out.Events["expired_at_block"] += int64(swept)
	if removed > 0 {
		h.out.Flags["block_removed"] = true
	}
	if swept > 0 {
		h.out.Flags["expiry"] = true
	}
	h.logf("addblock h=%d t=%d txs=%d (units %d) -> removed %d, expired %d", b.Height, b.BlockTime, len(b.Txs), len(units), removed, swept)
	// the block's transactions must be gone (checked directly, not only through the model)
	s := h.snap()
	inPool := map[string]bool{}
	for _, it := range s.Queue {
		inPool[it.Hash] = true
	}
	if sizeBefore > 0 {
		for _, tx := range b.Txs {
			if inPool[string(tx.Hash())] {
				h.violate("block-tx-still-present", "tx %s of added block h=%d is still in the pool afterwards", mpenv.Hex8(string(tx.Hash())), b.Height)
				return
			}
		}
	}
	h.compare(s, "addblock")
}

func (h *hist) evDelBlock() {
	m := h.m
	// the last non-stale block
	var top *blk
	for i := len(m.blocks) - 1; i >= 0; i-- {
		if m.blocks[i].ParentH >= 0 {
			top = m.blocks[i]
			break
		}
	}
	if top == nil {
		return
	}
	if h.rng.Chance(15) && len(m.blocks) > 1 {
		// a rollback notice for a block that is not the pool's tip: must be ignored
		var old *blk
		for _, b := range m.blocks {
			if b.ParentH >= 0 && b.Raw.Height != m.height {
				old = b
				break
			}
		}
		if old != nil {
			if err := h.env.Event(types.EventDelBlock, &types.BlockDetail{Block: old.Raw}, true); err != nil {
				h.out.Incon = "EventDelBlock: " + err.Error()
				h.stop = true
				return
			}
			h.ev("delblock_not_tip")
			h.logf("delblock(not tip) h=%d -> ignored", old.Raw.Height)
			h.compare(h.snap(), "delblock-not-tip")
			return
		}
	}
	if top.Raw.Height != m.height {
		return
	}
	if err := h.env.DelBlock(top.Raw, top.ParentH, top.ParentT, true); err != nil {
		h.out.Incon = "EventDelBlock: " + err.Error()
		h.stop = true
		return
	}
	h.ev("delblock")
	m.blocks = m.blocks[:len(m.blocks)-1]
	m.height, m.btime = top.ParentH, top.ParentT
	readd := 0
	for _, u := range top.Units {
		if !u.FeeOK || expiredAt(&mtx{Expires: u.Expires}, m.height, m.btime) {
			continue
		}
		e, ev := m.push(u)
		if e == "" {
			readd++
		}
		if ev != nil {
			h.ev("score_evictions")
			h.out.Flags["evict"] = true
			h.logf("delblock h=%d -> re-add evicts", top.Raw.Height)
			h.checkAfter("evict", ev)
			return
		}
	}
	h.out.Events["readded_by_rollback"] += int64(readd)
	if readd > 0 {
		h.out.Flags["rollback_readd"] = true
	}
	h.logf("delblock h=%d units=%d -> re-added %d, header back to h=%d t=%d", top.Raw.Height, len(top.Units), readd, m.height, m.btime)
	h.compare(h.snap(), "delblock")
}

func (h *hist) evDelTx() {
	var hs [][]byte
	var names []string
	n := h.rng.Intn(4)
	for i := 0; i < n; i++ {
		if len(h.m.q) > 0 && h.rng.Chance(60) {
			t := lib.Pick(h.rng, h.m.q)
			hs = append(hs, []byte(t.Hash))
			names = append(names, fmt.Sprintf("#%d", t.ID))
		} else if len(h.all) > 0 && h.rng.Chance(60) {
			t := lib.Pick(h.rng, h.all)
			hs = append(hs, []byte(t.Hash))
			names = append(names, fmt.Sprintf("#%d?", t.ID))
		} else {
			hs = append(hs, h.rng.Bytes(32))
			names = append(names, "rnd")
		}
	}
	ok, text, err := h.env.DelTxList(hs)
	if err != nil {
		h.out.Incon = "EventDelTxList: " + err.Error()
		h.stop = true
		return
	}
	h.ev("deltxlist")
	rem := 0
	if len(hs) > 0 {
		for _, x := range hs {
			if h.m.remove(string(x)) {
				rem++
			}
		}
	} else if ok {
		h.violate("deltx-empty-ok", "EventDelTxList with no hashes answered ok")
		return
	}
	h.out.Events["removed_explicitly"] += int64(rem)
	if rem > 0 {
		h.out.Flags["explicit_remove"] = true
	}
	h.logf("deltxlist %v -> ok=%v %s removed %d", names, ok, text, rem)
	h.compare(h.snap(), "deltxlist")
}

func (h *hist) evAge() {
	if len(h.m.q) == 0 {
		return
	}
	t := lib.Pick(h.rng, h.m.q)
	if !h.env.Mem.VerifSetEnterTime(t.Hash, 10*mempool.VerifExpiredInterval()) {
		h.violate("age-hook", "tx #%d is in the model but the pool cannot find it", t.ID)
		return
	}
	t.Aged = true
	h.ev("aged")
	h.logf("age #%d", t.ID)
}

func (h *hist) evSweep() {
	h.env.Mem.VerifRemoveExpired()
	n := h.m.sweep()
	h.ev("sweep")
	h.out.Events["expired_at_sweep"] += int64(n)
	if n > 0 {
		h.out.Flags["expiry"] = true
	}
	h.logf("sweep -> expired %d", n)
	h.compare(h.snap(), "sweep")
}

// evQuery: the public observers must agree with the contents.
func (h *hist) evQuery() {
	m := h.m
	fail := func(err error) bool {
		if err != nil {
			h.out.Incon = "query: " + err.Error()
			h.stop = true
			return true
		}
		return false
	}
	switch h.rng.Intn(8) {
	case 0:
		n, err := h.env.Size()
		if fail(err) {
			return
		}
		h.ev("q_size")
		if int(n) != len(m.q) {
			h.violate("query-size", "EventGetMempoolSize=%d, contents %d", n, len(m.q))
		}
	case 1:
		txs, err := h.env.LastTxs()
		if fail(err) {
			return
		}
		h.ev("q_last")
		var got []string
		for _, tx := range txs {
			got = append(got, mpenv.H(tx))
		}
		if !eqStr(got, m.last) {
			h.violate("query-last", "EventGetLastMempool=%s, expected %s", shortList(got), shortList(m.last))
		}
	case 2:
		k := lib.Pick(h.rng, h.keys)
		d, err := h.env.AddrTxs([]string{k.Addr})
		if fail(err) {
			return
		}
		h.ev("q_addr")
		var got []string
		for _, x := range d.Txs {
			got = append(got, mpenv.H(x.Tx))
		}
		if want := m.fromOrder(k.Addr); !eqStr(got, want) {
			h.violate("query-addr", "EventGetAddrTxs(%s)=%s, contents of that sender %s", k.Name, shortList(got), shortList(want))
		}
		if n := h.env.Mem.TxNumOfAccount(k.Addr); int(n) != len(m.fromOrder(k.Addr)) {
			h.violate("query-addr-num", "TxNumOfAccount(%s)=%d, contents %d", k.Name, n, len(m.fromOrder(k.Addr)))
		}
	case 3, 4:
		if len(h.all) == 0 {
			return
		}
		short := h.rng.Bool()
		var req []string
		var want []string
		for i := 0; i < 3; i++ {
			t := lib.Pick(h.rng, h.all)
			if len(m.q) > 0 && h.rng.Bool() {
				t = lib.Pick(h.rng, m.q)
			}
			if short {
				req = append(req, types.CalcTxShortHash([]byte(t.Hash)))
			} else {
				req = append(req, t.Hash)
			}
			if m.has(t.Hash) != nil {
				want = append(want, t.Hash)
			} else {
				want = append(want, "")
			}
		}
		txs, err := h.env.ByHash(req, short)
		if fail(err) {
			return
		}
		h.ev("q_byhash")
		for i, tx := range txs {
			got := ""
			if tx != nil {
				got = mpenv.H(tx)
			}
			if got != want[i] && h.cfg.Special != "shash" {
				h.violate("query-byhash", "EventTxListByHash(short=%v) entry %d answers %q, contents say %q", short, i, mpenv.Hex8(got), mpenv.Hex8(want[i]))
			}
		}
	case 5:
		if len(h.all) == 0 {
			return
		}
		var req [][]byte
		var want []bool
		for i := 0; i < 4; i++ {
			t := lib.Pick(h.rng, h.all)
			req = append(req, []byte(t.Hash))
			want = append(want, m.has(t.Hash) != nil)
		}
		fl, err := h.env.Exists(req)
		if fail(err) {
			return
		}
		h.ev("q_exist")
		for i := range fl {
			if fl[i] != want[i] {
				h.violate("query-exist", "EventCheckTxsExist entry %d = %v, contents say %v", i, fl[i], want[i])
			}
		}
	case 6:
		all, err := h.env.GetMempool(true)
		if fail(err) {
			return
		}
		h.ev("q_all")
		got := []string{}
		for _, tx := range all {
			got = append(got, mpenv.H(tx))
		}
		if h.cfg.NEth == 0 {
			if want := hashesOf(m.q); !eqStr(got, want) {
				h.violate("query-all", "EventGetMempool(all)=%s, contents %s", shortList(got), shortList(want))
			}
		} else {
			for _, g := range got {
				if m.has(g) == nil {
					h.violate("query-all", "EventGetMempool(all) returns %s which is not in the pool", mpenv.Hex8(g))
				}
			}
		}
		if b := h.env.Mem.GetTotalCacheBytes(); true {
			var want int64
			for _, t := range m.q {
				want += t.Bytes
			}
			if b != want {
				h.violate("query-bytes", "GetTotalCacheBytes=%d, contents sum to %d", b, want)
			}
		}
	case 7:
		cnt := int64(1 + h.rng.Intn(len(m.q)+2))
		txs, _, err := h.env.TxList(cnt, nil)
		if fail(err) {
			return
		}
		h.ev("q_txlist")
		if int64(len(txs)) > cnt {
			h.violate("query-txlist", "EventTxList(count=%d) returned %d", cnt, len(txs))
		}
		for _, tx := range txs {
			if t := m.has(mpenv.H(tx)); t == nil {
				h.violate("query-txlist", "EventTxList returns %s which is not in the pool", mpenv.Hex8(mpenv.H(tx)))
			}
		}
		_, err = h.env.ProperFee(nil)
		fail(err)
	}
}

// --- monitor -----------------------------------------------------------------------------------

func (h *hist) snap() *mempool.VerifSnap {
	s := h.env.Mem.VerifSnapshot()
	h.out.Snapshots++
	k := mpenv.StateKey(s)
	if !h.states[k] {
		h.states[k] = true
	}
	if len(s.Queue) > h.out.MaxPool {
		h.out.MaxPool = len(s.Queue)
	}
	return s
}

// compare: structural invariants + contents/last/per-sender/header against the shadow model.
func (h *hist) compare(s *mempool.VerifSnap, after string) {
	if h.stop {
		return
	}
	issues := mpenv.CheckSnap(s, int64(h.cfg.Cap))
	if len(issues) > 0 {
		shapes := map[string]bool{}
		var msgs []string
		for _, is := range issues {
			shapes[is.Shape] = true
			msgs = append(msgs, is.Msg)
		}
		var ss []string
		for k := range shapes {
			ss = append(ss, k)
		}
		sort.Strings(ss)
		h.violate(strings.Join(ss, "+"), "after %s: %s", after, strings.Join(msgs, "; "))
		return
	}
	got := make([]string, len(s.Queue))
	for i := range s.Queue {
		got[i] = s.Queue[i].Hash
	}
	if want := hashesOf(h.m.q); !eqStr(got, want) {
		shape := "contents-differ"
		ws := map[string]bool{}
		for _, x := range want {
			ws[x] = true
		}
		gs := map[string]bool{}
		for _, x := range got {
			gs[x] = true
		}
		extra, missing := 0, 0
		for x := range gs {
			if !ws[x] {
				extra++
			}
		}
		for x := range ws {
			if !gs[x] {
				missing++
			}
		}
		switch {
		case extra > 0 && missing == 0:
			shape = "contents-extra"
		case missing > 0 && extra == 0:
			shape = "contents-missing"
		case missing == 0 && extra == 0:
			shape = "contents-order"
		}
		h.violate(shape, "after %s: pool holds %s, expected %s", after, shortList(got), shortList(want))
		return
	}
	var last []string
	for _, e := range s.Last {
		last = append(last, e.Hash)
	}
	if !eqStr(last, h.m.last) {
		h.violate("last-differs", "after %s: latest-tx list %s, expected %s", after, shortList(last), shortList(h.m.last))
		return
	}
	for addr, list := range s.Acc {
		var g []string
		for _, e := range list {
			g = append(g, e.Hash)
		}
		if want := h.m.fromOrder(addr); !eqStr(g, want) {
			h.violate("acc-order", "after %s: per-sender list of %s is %s, expected %s", after, addr, shortList(g), shortList(want))
			return
		}
	}
	if s.Height != h.m.height || s.BlockTime != h.m.btime {
		h.violate("header-differs", "after %s: pool header (h=%d,t=%d), model (h=%d,t=%d)", after, s.Height, s.BlockTime, h.m.height, h.m.btime)
	}
}

// checkAfter handles the one situation in which the model and the real pool are expected to part: the score
// queue evicted an entry on its own. The disagreement is reported with a shape that names exactly what the
// stale entry breaks; the history stops there.
func (h *hist) checkAfter(what string, evicted *mtx) {
	s := h.snap()
	issues := mpenv.CheckSnap(s, int64(h.cfg.Cap))
	if len(issues) == 0 {
		// the pool cleaned up after the eviction: fine, carry on with the model
		h.compare(s, what)
		return
	}
	shapes := map[string]bool{}
	var msgs []string
	for _, is := range issues {
		shapes[is.Shape] = true
		msgs = append(msgs, is.Msg)
	}
	var ss []string
	for k := range shapes {
		ss = append(ss, k)
	}
	sort.Strings(ss)
	h.violate("score-evict:"+strings.Join(ss, "+"), "score queue (capacity %d) evicted %s to admit a better transaction; afterwards: %s",
		h.cfg.Cap, evicted.Desc, strings.Join(msgs, "; "))
}

// --- driver -----------------------------------------------------------------------------------

func runSeq(in []byte) (any, error) {
	var cfg histCfg
	if err := json.Unmarshal(in, &cfg); err != nil {
		return nil, err
	}
	start := time.Now()
	out := &histOut{Events: map[string]int64{}, Flags: map[string]bool{}}
	h := &hist{cfg: cfg, rng: lib.NewRng(cfg.Seed), out: out, ethN: map[string]int64{}, byHash: map[string]*mtx{}, states: map[string]bool{}}
	h.env = mpenv.New(mpenv.Opts{PoolSize: int64(cfg.Cap), MaxPerAcc: int64(cfg.PerAcc), MaxLast: int64(cfg.LastMax), Queue: cfg.Queue,
		Height: 10, BlockTime: t0})
	defer h.env.Close()
	h.m = &model{cap: cfg.Cap, perAcc: cfg.PerAcc, lastMax: cfg.LastMax, score: cfg.Queue == "score", height: 10, btime: t0}
	for i := 0; i < cfg.NSenders; i++ {
		h.keys = append(h.keys, mpenv.NewKey("s", i, false))
	}
	for i := 0; i < cfg.NEth; i++ {
		h.keys = append(h.keys, mpenv.NewKey("s", i, true))
	}
	h.compare(h.snap(), "start")
	switch cfg.Special {
	case "evict-min":
		h.scriptEvict()
	case "shash":
		h.scriptShash()
	default:
		for h.evNo = 0; h.evNo < cfg.NEvents && !h.stop; h.evNo++ {
			before := len(out.Violations)
			r := h.rng.Intn(100)
			switch {
			case r < 52:
				h.evSubmit()
				if !h.stop {
					h.compare(h.snap(), "submission")
				}
			case r < 64:
				h.evAddBlock()
			case r < 70:
				h.evDelBlock()
			case r < 78:
				h.evDelTx()
			case r < 84:
				h.evAge()
			case r < 90:
				h.evSweep()
			default:
				h.evQuery()
			}
			_ = before
			if time.Since(start) > 4*time.Minute {
				out.Incon = "history watchdog (4 min)"
				break
			}
		}
	}
	for k := range h.states {
		if len(out.States) < 4000 {
			out.States = append(out.States, k)
		}
	}
	out.WallMs = time.Since(start).Milliseconds()
	return out, nil
}

// scriptEvict: the smallest history in which a score-ordered queue evicts: capacity 1, a cheap tx, then a
// better paying one from another sender.
func (h *hist) scriptEvict() {
	a := h.newSingle(h.keys[0], 1, 0, "cheap")
	h.submit(a, "tx_new", a.Pool)
	h.compare(h.snap(), "submission")
	h.evNo++
	b := h.newSingle(h.keys[1], 5, 0, "better")
	h.submit(b, "tx_new", b.Pool)
	if !h.stop {
		h.compare(h.snap(), "submission")
	}
}

// scriptShash: two transactions whose hashes share the 5-byte short hash: A, B admitted, B removed.
func (h *hist) scriptShash() {
	mk := func(k *mpenv.Key, nonce int64) *mtx {
		tx := collTx(nonce)
		k.Sign(tx)
		t := &mtx{ID: len(h.all), Pool: tx, Members: []*types.Transaction{tx}, Hash: mpenv.H(tx), From: k.Addr, Fee: tx.Fee,
			Bytes: int64(types.Size(tx)), Expires: []int64{0}, FeeOK: true}
		t.Desc = fmt.Sprintf("tx#%d(%s nonce=%d short=%s)", t.ID, k.Name, nonce, types.CalcTxShortHash([]byte(t.Hash)))
		h.all = append(h.all, t)
		h.byHash[t.Hash] = t
		return t
	}
	a, b := mk(h.keys[0], h.cfg.CollA), mk(h.keys[1], h.cfg.CollB)
	if types.CalcTxShortHash([]byte(a.Hash)) != types.CalcTxShortHash([]byte(b.Hash)) || a.Hash == b.Hash {
		h.out.Incon = "short-hash collision pair does not collide"
		return
	}
	h.out.Flags["shash_collision"] = true
	h.submit(a, "tx_new", a.Pool)
	h.compare(h.snap(), "submission")
	h.evNo++
	h.submit(b, "tx_new", b.Pool)
	if h.stop {
		return
	}
	h.compare(h.snap(), "submission")
	if h.stop {
		return
	}
	h.evNo++
	ok, _, err := h.env.DelTxList([][]byte{[]byte(b.Hash)})
	if err != nil || !ok {
		h.out.Incon = "EventDelTxList failed"
		return
	}
	h.ev("deltxlist")
	h.m.remove(b.Hash)
	h.logf("deltxlist [#%d] -> ok", b.ID)
	s := h.snap()
	issues := mpenv.CheckSnap(s, int64(h.cfg.Cap))
	if len(issues) > 0 {
		var ss, msgs []string
		for _, is := range issues {
			ss = append(ss, is.Shape)
			msgs = append(msgs, is.Msg)
		}
		h.violate("shash-collision:"+strings.Join(ss, "+"), "two pool transactions share short hash %s; after removing the later one: %s",
			types.CalcTxShortHash([]byte(a.Hash)), strings.Join(msgs, "; "))
		return
	}
	// observable through the public lookup as well
	txs, err := h.env.ByHash([]string{types.CalcTxShortHash([]byte(a.Hash))}, true)
	if err == nil && (len(txs) != 1 || txs[0] == nil) {
		h.violate("shash-collision:lookup", "tx %s is in the pool but EventTxListByHash(short) answers nil", a.Desc)
	}
}

// collTx is the transaction family searched for short-hash collisions (hash does not cover the signature).
func collTx(nonce int64) *types.Transaction {
	return mpenv.Transfer("14KEKbYtKKQm4wMthSK9J4La4nAiidGozt", 1, rate, 0, nonce)
}
