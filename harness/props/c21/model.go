package main

import (
	"fmt"

	"github.com/33cn/chain33/types"
	"verifharness/mpenv"
)

// Shadow model of the pool contents (what the queue, the per-sender index and the latest-tx list must hold).

const (
	rate   = int64(100000)     // minTxFeeRate of the configuration
	maxFee = int64(1000000000) // mempool.maxTxFee default
	t0     = int64(3000000000) // model block times start here: far above the wall clock, below TxHeightFlag
)

type mtx struct {
	ID      int
	Pool    *types.Transaction   // the form submitted to / stored by the pool (group: head copy carrying the group)
	Members []*types.Transaction // what a block carries
	Hash    string
	From    string
	Fee     int64
	Bytes   int64
	Expires []int64 // Expire of every member
	Aged    bool
	FeeOK   bool // passes Transaction.Check's fee rule (needed to predict a rollback re-add)
	Score   int64
	Seq     int64
	Eth     bool
	Desc    string
}

type blk struct {
	Raw              *types.Block
	Units            []*mtx
	ParentH, ParentT int64
}

type model struct {
	cap, perAcc, lastMax int
	score                bool
	q                    []*mtx // walk order of the queue
	last                 []string
	height, btime        int64
	blocks               []*blk
	seq                  int64
	arrival              map[string]int64 // hash -> arrival seq of the current pool entry
}

func (m *model) has(h string) *mtx {
	for _, t := range m.q {
		if t.Hash == h {
			return t
		}
	}
	return nil
}

func (m *model) countFrom(addr string) int {
	n := 0
	for _, t := range m.q {
		if t.From == addr {
			n++
		}
	}
	return n
}

// expiredAt: expired for the next block after header (h, bt), or aged out of the pool.
func expiredAt(t *mtx, h, bt int64) bool {
	if t.Aged {
		return true
	}
	for _, e := range t.Expires {
		switch {
		case e == 0:
		case e <= types.ExpireBound:
			if e <= h+1 {
				return true
			}
		default:
			if e <= bt {
				return true
			}
		}
	}
	return false
}

func (m *model) expired(t *mtx) bool { return expiredAt(t, m.height, m.btime) }

func (m *model) removeAt(i int) {
	h := m.q[i].Hash
	m.q = append(m.q[:i:i], m.q[i+1:]...)
	for j, x := range m.last {
		if x == h {
			m.last = append(m.last[:j:j], m.last[j+1:]...)
			break
		}
	}
}

func (m *model) remove(h string) bool {
	for i, t := range m.q {
		if t.Hash == h {
			m.removeAt(i)
			return true
		}
	}
	return false
}

// push mirrors the documented behaviour of the composite push: per-sender limit, duplicate, capacity
// (score queue: evict the lowest entry when the newcomer scores strictly higher).
func (m *model) push(t *mtx) (errText string, evicted *mtx) {
	if m.countFrom(t.From) >= m.perAcc {
		return "ErrManyTx", nil
	}
	if m.has(t.Hash) != nil {
		return "ErrTxExist", nil
	}
	if len(m.q) >= m.cap {
		if !m.score {
			return "ErrMemFull", nil
		}
		tail := m.q[len(m.q)-1]
		if t.Score > tail.Score {
			evicted = tail
			// the real queue drops it from the queue only; the model removes it everywhere (that is what
			// "agrees with its contents" demands)
			m.removeAt(len(m.q) - 1)
		} else {
			return "ErrMemFull", nil
		}
	}
	m.seq++
	t.Seq = m.seq
	t.Aged = false
	if m.score {
		pos := len(m.q)
		for i, x := range m.q {
			if x.Score < t.Score {
				pos = i
				break
			}
		}
		m.q = append(m.q, nil)
		copy(m.q[pos+1:], m.q[pos:])
		m.q[pos] = t
	} else {
		m.q = append(m.q, t)
	}
	if len(m.last) >= m.lastMax && len(m.last) > 0 {
		m.last = m.last[1:]
	}
	m.last = append(m.last, t.Hash)
	return "", evicted
}

func (m *model) sweep() (n int) {
	for i := 0; i < len(m.q); {
		if m.expired(m.q[i]) {
			m.removeAt(i)
			n++
		} else {
			i++
		}
	}
	return n
}

func (m *model) fromOrder(addr string) []string {
	// the per-sender index lists a sender's txs in arrival order
	var ts []*mtx
	for _, t := range m.q {
		if t.From == addr {
			ts = append(ts, t)
		}
	}
	for i := 1; i < len(ts); i++ {
		for j := i; j > 0 && ts[j-1].Seq > ts[j].Seq; j-- {
			ts[j-1], ts[j] = ts[j], ts[j-1]
		}
	}
	var out []string
	for _, t := range ts {
		out = append(out, t.Hash)
	}
	return out
}

func hashesOf(ts []*mtx) []string {
	out := make([]string, len(ts))
	for i, t := range ts {
		out[i] = t.Hash
	}
	return out
}

func shortList(hs []string) string {
	s := "["
	for i, h := range hs {
		if i > 0 {
			s += " "
		}
		if i >= 12 {
			s += fmt.Sprintf("…+%d", len(hs)-i)
			break
		}
		s += mpenv.Hex8(h)
	}
	return s + "]"
}

func eqStr(a, b []string) bool {
	if len(a) != len(b) {
		return false
	}
	for i := range a {
		if a[i] != b[i] {
			return false
		}
	}
	return true
}
