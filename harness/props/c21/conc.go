package main

import (
	"encoding/json"
	"fmt"
	"sort"
	"strings"
	"sync"
	"sync/atomic"
	"time"

	"github.com/33cn/chain33/system/mempool"
	"github.com/33cn/chain33/types"
	"verifharness/lib"
	"verifharness/mpenv"
)

// Concurrent mode: 16 submitters, a block producer (add + rollback), a remover (explicit removals + sweeps),
// a querier and a snapshot monitor run against one pool; the structural invariants are evaluated under the
// pool lock while everything is in flight, the contents are judged at quiescent points.

type concCfg struct {
	Idx        int
	Seed       uint64
	Cap        int
	PerAcc     int
	LastMax    int
	Rounds     int
	Submitters int
	PerRound   int // submissions per submitter and round
}

type concOut struct {
	Events     map[string]int64
	Snapshots  int64
	Quiescent  int64
	States     []string
	Violations []viol
	Incon      string
	MaxPool    int
	WallMs     int64
}

type ctx struct {
	ID        int
	Tx        *types.Transaction
	Members   []*types.Transaction
	Hash      string
	Inflight  int
	OK        int  // ok replies
	Submitted int  // submissions
	OnChain   bool // in an added block that was not rolled back
	WasChain  bool // ever in a block
	Rolled    bool // in a rolled back block (the pool may have re-added it)
	Named     bool // named in an explicit removal
	Expirable bool
	Aged      bool
	Desc      string
}

type conc struct {
	cfg    concCfg
	env    *mpenv.Env
	mu     sync.Mutex
	txs    []*ctx
	byHash map[string]*ctx
	keys   []*mpenv.Key
	out    *concOut
	nonce  int64
	height int64
	btime  int64
	blocks []*cblk
	states map[string]bool
	stopQ  int32
}

type cblk struct {
	Raw              *types.Block
	Units            []*ctx
	ParentH, ParentT int64
}

func (c *conc) ev(k string, n int64) {
	c.mu.Lock()
	c.out.Events[k] += n
	c.mu.Unlock()
}

func (c *conc) violate(shape, f string, a ...interface{}) {
	c.mu.Lock()
	if len(c.out.Violations) < 8 {
		c.out.Violations = append(c.out.Violations, viol{Shape: shape, Msg: fmt.Sprintf(f, a...)})
	}
	c.mu.Unlock()
}

func (c *conc) incon(s string) {
	c.mu.Lock()
	if c.out.Incon == "" {
		c.out.Incon = s
	}
	c.mu.Unlock()
	atomic.StoreInt32(&c.stopQ, 1)
}

func (c *conc) newTx(rng *lib.Rng, height, btime int64) *ctx {
	k := lib.Pick(rng, c.keys)
	n := atomic.AddInt64(&c.nonce, 1)
	var expire int64
	switch rng.Intn(10) {
	case 0, 1:
		expire = height + 2 + int64(rng.Intn(5))
	case 2:
		expire = btime + 5 + int64(rng.Intn(60))
	}
	x := &ctx{Expirable: expire != 0}
	if rng.Chance(10) {
		m := 2 + rng.Intn(2)
		var ms []*types.Transaction
		var ks []*mpenv.Key
		for i := 0; i < m; i++ {
			ks = append(ks, lib.Pick(rng, c.keys[:len(c.keys)-2]))
			ms = append(ms, mpenv.Transfer(lib.Pick(rng, c.keys).Addr, n, 0, 0, atomic.AddInt64(&c.nonce, 1)))
		}
		ms[0].Expire = expire
		g, ptx := mpenv.MakeGroup(ms, ks, rate*int64(m)*int64(1+rng.Intn(3)))
		x.Tx, x.Members = ptx, g.Txs
		x.Desc = fmt.Sprintf("group(n=%d head=%s exp=%d)", m, ks[0].Name, expire)
	} else {
		nn := n
		if k.Eth {
			nn = int64(rng.Intn(6))
		}
		tx := mpenv.Transfer(lib.Pick(rng, c.keys).Addr, n, rate*int64(1+rng.Intn(4)), expire, nn)
		k.Sign(tx)
		x.Tx, x.Members = tx, []*types.Transaction{tx}
		x.Desc = fmt.Sprintf("tx(%s exp=%d)", k.Name, expire)
	}
	x.Hash = mpenv.H(x.Tx)
	c.mu.Lock()
	x.ID = len(c.txs)
	c.txs = append(c.txs, x)
	c.byHash[x.Hash] = x
	c.mu.Unlock()
	return x
}

func (c *conc) submitter(id int, rng *lib.Rng, wg *sync.WaitGroup) {
	defer wg.Done()
	for i := 0; i < c.cfg.PerRound && atomic.LoadInt32(&c.stopQ) == 0; i++ {
		var x *ctx
		c.mu.Lock()
		h, bt, n := c.height, c.btime, len(c.txs)
		c.mu.Unlock()
		if n > 0 && rng.Chance(25) {
			c.mu.Lock()
			x = c.txs[rng.Intn(len(c.txs))]
			c.mu.Unlock()
		} else {
			x = c.newTx(rng, h, bt)
		}
		c.mu.Lock()
		x.Inflight++
		x.Submitted++
		c.mu.Unlock()
		tx := mpenv.Copy(x.Tx)
		if rng.Chance(6) && tx.GroupCount == 0 {
			tx.Signature.Signature[3] ^= 1
			ok, _, err := c.env.SendTx(tx)
			c.mu.Lock()
			x.Inflight--
			x.Submitted--
			c.out.Events["tx_badsig"]++
			c.mu.Unlock()
			if err != nil {
				c.incon("EventTx: " + err.Error())
				return
			}
			if ok {
				c.violate("admit-badsig", "a transaction with a broken signature was admitted: %s", x.Desc)
			}
			continue
		}
		ok, text, err := c.env.SendTx(tx)
		c.mu.Lock()
		x.Inflight--
		if ok {
			x.OK++
			c.out.Events["tx_admitted"]++
		} else {
			c.out.Events["tx_rejected"]++
			c.out.Events["reject:"+normErr(text)]++
		}
		c.mu.Unlock()
		if err != nil {
			c.incon("EventTx: " + err.Error())
			return
		}
	}
}

func (c *conc) blocker(rng *lib.Rng, wg *sync.WaitGroup, n int) {
	defer wg.Done()
	for i := 0; i < n && atomic.LoadInt32(&c.stopQ) == 0; i++ {
		time.Sleep(time.Duration(2+rng.Intn(8)) * time.Millisecond)
		if rng.Chance(25) {
			// roll the tip back
			c.mu.Lock()
			if len(c.blocks) == 0 {
				c.mu.Unlock()
				continue
			}
			top := c.blocks[len(c.blocks)-1]
			c.blocks = c.blocks[:len(c.blocks)-1]
			for _, u := range top.Units {
				u.OnChain = false
				u.Rolled = true
			}
			c.height, c.btime = top.ParentH, top.ParentT
			c.out.Events["delblock"]++
			c.mu.Unlock()
			if err := c.env.DelBlock(top.Raw, top.ParentH, top.ParentT, true); err != nil {
				c.incon("EventDelBlock: " + err.Error())
				return
			}
			continue
		}
		// a block from what the pool offers (as a producer would) plus never-submitted transactions
		offer, _, err := c.env.TxList(int64(1+rng.Intn(30)), nil)
		if err != nil {
			c.incon("EventTxList: " + err.Error())
			return
		}
		var fresh []*ctx
		c.mu.Lock()
		hh, bt := c.height, c.btime
		c.mu.Unlock()
		for k := rng.Intn(3); k > 0; k-- {
			fresh = append(fresh, c.newTx(rng, hh, bt))
		}
		c.mu.Lock()
		var units []*ctx
		for _, tx := range offer {
			x := c.byHash[mpenv.H(tx)]
			// only settled transactions: a submission in flight has passed (or not) the on-chain check at an
			// unknown time relative to this block, so its fate is not determined by the history
			if x == nil || x.Inflight > 0 || x.OnChain {
				continue
			}
			units = append(units, x)
		}
		for _, x := range fresh {
			if x.Inflight == 0 && !x.OnChain {
				units = append(units, x)
			}
		}
		b := &types.Block{Version: 1, ParentHash: []byte("p"), TxHash: []byte("t"), StateHash: []byte("s"),
			Height: c.height + 1, BlockTime: c.btime + int64(1+rng.Intn(20))}
		for _, u := range units {
			u.OnChain, u.WasChain = true, true
			b.Txs = append(b.Txs, u.Members...)
		}
		rec := &cblk{Raw: b, Units: units, ParentH: c.height, ParentT: c.btime}
		c.blocks = append(c.blocks, rec)
		c.height, c.btime = b.Height, b.BlockTime
		c.out.Events["addblock"]++
		c.out.Events["block_txs"] += int64(len(units))
		// the chain view changes inside the same critical section that chose the transactions
		c.env.Chain.Mu.Lock()
		for _, tx := range b.Txs {
			c.env.Chain.OnChain[string(tx.Hash())] = true
		}
		c.env.Chain.Header.Height, c.env.Chain.Header.BlockTime = b.Height, b.BlockTime
		c.env.Chain.Mu.Unlock()
		c.mu.Unlock()
		if err := c.env.Event(types.EventAddBlock, &types.BlockDetail{Block: b}, true); err != nil {
			c.incon("EventAddBlock: " + err.Error())
			return
		}
	}
}

func (c *conc) remover(rng *lib.Rng, wg *sync.WaitGroup, n int) {
	defer wg.Done()
	for i := 0; i < n && atomic.LoadInt32(&c.stopQ) == 0; i++ {
		time.Sleep(time.Duration(1+rng.Intn(6)) * time.Millisecond)
		if rng.Chance(35) {
			c.env.Mem.VerifRemoveExpired()
			c.ev("sweep", 1)
			continue
		}
		var hs [][]byte
		c.mu.Lock()
		for k := 1 + rng.Intn(3); k > 0 && len(c.txs) > 0; k-- {
			x := c.txs[rng.Intn(len(c.txs))]
			x.Named = true
			hs = append(hs, []byte(x.Hash))
		}
		c.mu.Unlock()
		if rng.Chance(20) {
			hs = append(hs, rng.Bytes(32))
		}
		if len(hs) == 0 {
			continue
		}
		if _, _, err := c.env.DelTxList(hs); err != nil {
			c.incon("EventDelTxList: " + err.Error())
			return
		}
		c.ev("deltxlist", 1)
	}
}

func (c *conc) querier(rng *lib.Rng, wg *sync.WaitGroup, done <-chan struct{}) {
	defer wg.Done()
	dups := func(what string, txs []*types.Transaction) {
		seen := map[string]bool{}
		for _, tx := range txs {
			if tx == nil {
				continue
			}
			h := mpenv.H(tx)
			if seen[h] {
				c.violate("query-dup", "%s lists %s twice", what, mpenv.Hex8(h))
			}
			seen[h] = true
		}
	}
	for {
		select {
		case <-done:
			return
		default:
		}
		if atomic.LoadInt32(&c.stopQ) != 0 {
			return
		}
		time.Sleep(300 * time.Microsecond)
		var err error
		switch rng.Intn(8) {
		case 0, 1, 2:
			var txs []*types.Transaction
			txs, err = c.env.GetMempool(rng.Bool())
			dups("EventGetMempool", txs)
			c.ev("q_all", 1)
		case 3:
			cnt := int64(1 + rng.Intn(20))
			var txs []*types.Transaction
			txs, _, err = c.env.TxList(cnt, nil)
			dups("EventTxList", txs)
			if int64(len(txs)) > cnt {
				c.violate("query-txlist", "EventTxList(count=%d) returned %d", cnt, len(txs))
			}
			c.ev("q_txlist", 1)
		case 4:
			var n int64
			n, err = c.env.Size()
			if n > int64(c.cfg.Cap) {
				c.violate("over-capacity", "EventGetMempoolSize=%d > capacity %d", n, c.cfg.Cap)
			}
			c.ev("q_size", 1)
		case 5:
			var txs []*types.Transaction
			txs, err = c.env.LastTxs()
			dups("EventGetLastMempool", txs)
			if len(txs) > c.cfg.LastMax {
				c.violate("last-over", "EventGetLastMempool returned %d > %d", len(txs), c.cfg.LastMax)
			}
			c.ev("q_last", 1)
		case 6:
			k := lib.Pick(rng, c.keys)
			var d *types.TransactionDetails
			d, err = c.env.AddrTxs([]string{k.Addr})
			if d != nil && len(d.Txs) > c.cfg.PerAcc {
				c.violate("over-sender-limit", "EventGetAddrTxs(%s) lists %d > limit %d", k.Name, len(d.Txs), c.cfg.PerAcc)
			}
			c.ev("q_addr", 1)
		case 7:
			c.mu.Lock()
			var req []string
			var reqb [][]byte
			for i := 0; i < 3 && len(c.txs) > 0; i++ {
				x := c.txs[rng.Intn(len(c.txs))]
				req = append(req, x.Hash)
				reqb = append(reqb, []byte(x.Hash))
			}
			c.mu.Unlock()
			if len(req) > 0 {
				_, err = c.env.ByHash(req, false)
				if err == nil {
					_, err = c.env.Exists(reqb)
				}
				if err == nil {
					_, err = c.env.ProperFee(nil)
				}
			}
			c.ev("q_byhash", 1)
		}
		if err != nil {
			c.incon("query: " + err.Error())
			return
		}
	}
}

func (c *conc) monitor(wg *sync.WaitGroup, done <-chan struct{}) {
	defer wg.Done()
	for {
		select {
		case <-done:
			return
		case <-time.After(3 * time.Millisecond):
		}
		c.check(c.env.Mem.VerifSnapshot(), "in flight")
	}
}

func (c *conc) check(s *mempool.VerifSnap, when string) {
	issues := mpenv.CheckSnap(s, int64(c.cfg.Cap))
	c.mu.Lock()
	c.out.Snapshots++
	c.states[mpenv.StateKey(s)] = true
	if len(s.Queue) > c.out.MaxPool {
		c.out.MaxPool = len(s.Queue)
	}
	c.mu.Unlock()
	if len(issues) > 0 {
		shapes := map[string]bool{}
		var msgs []string
		for _, is := range issues {
			shapes[is.Shape] = true
			if len(msgs) < 6 {
				msgs = append(msgs, is.Msg)
			}
		}
		var ss []string
		for k := range shapes {
			ss = append(ss, k)
		}
		sort.Strings(ss)
		c.violate(strings.Join(ss, "+"), "snapshot under the pool lock (%s): %s", when, strings.Join(msgs, "; "))
	}
}

// quiescent: nothing is in flight; judge the contents.
func (c *conc) quiescent(rng *lib.Rng, round int) {
	if _, err := c.env.Size(); err != nil {
		c.incon("barrier: " + err.Error())
		return
	}
	s := c.env.Mem.VerifSnapshot()
	c.check(s, "quiescent")
	c.mu.Lock()
	c.out.Quiescent++
	in := map[string]bool{}
	for _, it := range s.Queue {
		in[it.Hash] = true
	}
	var must, mustNot, present int
	for _, x := range c.txs {
		switch {
		case x.OnChain:
			mustNot++
			if in[x.Hash] {
				c.mu.Unlock()
				c.violate("block-tx-still-present", "round %d: %s is in an added block (not rolled back) and still in the pool", round, x.Desc)
				c.mu.Lock()
			}
		case x.OK == 0 && !x.Rolled:
			mustNot++
			if in[x.Hash] {
				c.mu.Unlock()
				c.violate("contents-extra", "round %d: %s was never admitted (%d submissions, none ok) but is in the pool", round, x.Desc, x.Submitted)
				c.mu.Lock()
			}
		case x.OK > 0 && !x.Named && !x.WasChain && !x.Expirable && !x.Aged:
			must++
			if !in[x.Hash] {
				c.mu.Unlock()
				c.violate("contents-missing", "round %d: %s was admitted and nothing removed it, but it is not in the pool", round, x.Desc)
				c.mu.Lock()
			}
		}
		if in[x.Hash] {
			present++
		}
	}
	for h := range in {
		if c.byHash[h] == nil {
			c.mu.Unlock()
			c.violate("contents-extra", "round %d: pool holds %s which nobody submitted", round, mpenv.Hex8(h))
			c.mu.Lock()
		}
	}
	c.out.Events["judged_must_be_present"] += int64(must)
	c.out.Events["judged_must_be_absent"] += int64(mustNot)
	// age a few entries for the next round's sweeps
	var aged []*ctx
	for _, x := range c.txs {
		if in[x.Hash] && rng.Chance(15) {
			x.Aged = true
			aged = append(aged, x)
		}
	}
	c.mu.Unlock()
	for _, x := range aged {
		c.env.Mem.VerifSetEnterTime(x.Hash, 10*mempool.VerifExpiredInterval())
		c.ev("aged", 1)
	}
}

func runConc(in []byte) (any, error) {
	var cfg concCfg
	if err := json.Unmarshal(in, &cfg); err != nil {
		return nil, err
	}
	start := time.Now()
	out := &concOut{Events: map[string]int64{}}
	c := &conc{cfg: cfg, out: out, byHash: map[string]*ctx{}, states: map[string]bool{}, height: 10, btime: t0}
	c.env = mpenv.New(mpenv.Opts{PoolSize: int64(cfg.Cap), MaxPerAcc: int64(cfg.PerAcc), MaxLast: int64(cfg.LastMax), Queue: "simple",
		Height: 10, BlockTime: t0})
	defer c.env.Close()
	for i := 0; i < 46; i++ {
		c.keys = append(c.keys, mpenv.NewKey("c", i, false))
	}
	for i := 0; i < 2; i++ {
		c.keys = append(c.keys, mpenv.NewKey("c", i, true))
	}
	root := lib.NewRng(cfg.Seed)
	for r := 0; r < cfg.Rounds && atomic.LoadInt32(&c.stopQ) == 0; r++ {
		var wg, wq sync.WaitGroup
		done := make(chan struct{})
		wq.Add(2)
		go c.querier(root.Fork(), &wq, done)
		go c.monitor(&wq, done)
		for i := 0; i < cfg.Submitters; i++ {
			wg.Add(1)
			go c.submitter(i, root.Fork(), &wg)
		}
		wg.Add(2)
		go c.blocker(root.Fork(), &wg, 6+cfg.PerRound/4)
		go c.remover(root.Fork(), &wg, 6+cfg.PerRound/3)
		wg.Wait()
		close(done)
		wq.Wait()
		c.quiescent(root.Fork(), r)
		if time.Since(start) > 6*time.Minute {
			c.incon("concurrent watchdog (6 min)")
		}
	}
	for k := range c.states {
		if len(out.States) < 4000 {
			out.States = append(out.States, k)
		}
	}
	out.WallMs = time.Since(start).Milliseconds()
	return out, nil
}
