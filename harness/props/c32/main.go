// C32: push subscribers receive the sequence log in order without gaps.
package main

import (
	"compress/gzip"
	"encoding/json"
	"fmt"
	"io"
	"net/http"
	"net/http/httptest"
	"os"
	"path/filepath"
	"strings"
	"sync"
	"time"

	"github.com/33cn/chain33/common/address"
	"github.com/33cn/chain33/types"
	"github.com/33cn/chain33/util"
	"verifharness/chainenv"
	"verifharness/lib"
	"verifharness/node"
)

type postEv struct {
	Sub   string  `json:"sub"`
	Nums  []int64 `json:"nums"`
	Acked bool    `json:"acked"`
	PersistedBefore int64 `json:"persisted_before"` // ProcGetLastPushSeq observed when the post arrived
}

type subState struct {
	name    string
	ty      int32
	script  []bool // true = acknowledge; consumed per post; exhausted => acknowledge
	pos     int
	lastAck int64 // -1 = nothing acknowledged yet and no resume point known
	start   int64 // explicit resume point (0 = none: starts at the latest sequence when first scheduled)
	events  []postEv
	problems []string
}

type endpoint struct {
	mu    sync.Mutex
	subs  map[string]*subState
	chain func(name string) int64
}

func (e *endpoint) ServeHTTP(w http.ResponseWriter, r *http.Request) {
	name := strings.TrimPrefix(r.URL.Path, "/")
	zr, err := gzip.NewReader(r.Body)
	if err != nil {
		w.Write([]byte("bad"))
		return
	}
	body, _ := io.ReadAll(zr)
	persisted := e.chain(name)
	e.mu.Lock()
	defer e.mu.Unlock()
	s := e.subs[name]
	if s == nil {
		w.Write([]byte("unknown"))
		return
	}
	var nums []int64
	if s.ty == 0 {
		var seqs types.BlockSeqs
		if err := types.Decode(body, &seqs); err != nil {
			s.problems = append(s.problems, "undecodable block payload")
		}
		for _, q := range seqs.Seqs {
			nums = append(nums, q.Num)
			// the payload must describe the sequence record it claims
			if q.Seq == nil || q.Detail == nil || q.Detail.Block == nil {
				s.problems = append(s.problems, fmt.Sprintf("sequence %d delivered without record/block", q.Num))
			}
		}
	} else {
		var seqs types.HeaderSeqs
		if err := types.Decode(body, &seqs); err != nil {
			s.problems = append(s.problems, "undecodable header payload")
		}
		for _, q := range seqs.Seqs {
			nums = append(nums, q.Num)
		}
	}
	ack := true
	if s.pos < len(s.script) {
		ack = s.script[s.pos]
		s.pos++
	}
	ev := postEv{Sub: name, Nums: nums, Acked: ack, PersistedBefore: persisted}
	// ---- online monitor (endpoint boundary)
	if len(nums) == 0 {
		s.problems = append(s.problems, "empty payload")
	}
	for i := 1; i < len(nums); i++ {
		if nums[i] != nums[i-1]+1 {
			s.problems = append(s.problems, fmt.Sprintf("payload not consecutive: %v", nums))
		}
	}
	if len(nums) > 0 {
		if s.lastAck >= 0 && nums[0] != s.lastAck+1 {
			s.problems = append(s.problems, fmt.Sprintf("post starts at sequence %d, last acknowledged is %d (expected %d): %s", nums[0], s.lastAck, s.lastAck+1,
				map[bool]string{true: "gap", false: "re-delivery of acknowledged data"}[nums[0] > s.lastAck+1]))
		}
		if s.lastAck < 0 && s.start > 0 && nums[0] != s.start+1 {
			s.problems = append(s.problems, fmt.Sprintf("first post starts at %d, requested resume point was %d", nums[0], s.start))
		}
	}
	if s.lastAck >= 0 && persisted > s.lastAck {
		s.problems = append(s.problems, fmt.Sprintf("recorded last pushed sequence %d is ahead of the last acknowledged %d", persisted, s.lastAck))
	}
	if s.lastAck < 0 && len(nums) > 0 && persisted >= nums[0] {
		s.problems = append(s.problems, fmt.Sprintf("recorded last pushed sequence %d already covers %d which was never acknowledged", persisted, nums[0]))
	}
	if ack && len(nums) > 0 {
		s.lastAck = nums[len(nums)-1]
	}
	s.events = append(s.events, ev)
	if ack {
		w.Write([]byte("ok"))
	} else {
		w.Write([]byte("fail"))
	}
}

type histReq struct {
	Seed    uint64 `json:"seed"`
	Restart bool   `json:"restart"`
	Big     bool   `json:"big"`
}

type subRes struct {
	Name     string   `json:"name"`
	Type     int32    `json:"type"`
	Posts    int      `json:"posts"`
	Failed   int      `json:"failed_posts"`
	Acked    int      `json:"acked_posts"`
	LastAck  int64    `json:"last_ack"`
	LastSeq  int64    `json:"chain_last_seq"`
	Reactivations int `json:"reactivations"`
	Problems []string `json:"problems,omitempty"`
	Stalled  bool     `json:"stalled"`
	Events   []postEv `json:"events,omitempty"`
}

func runHistory(q histReq) ([]subRes, error) {
	r := lib.NewRng(q.Seed)
	tmp := os.Getenv("VERIF_TMP")
	bn := node.New(node.Options{DataDir: filepath.Join(tmp, "b")})
	tree, err := chainenv.Build(bn, chainenv.GenTree(r, 12, 13, 2, 3, 3), r)
	bn.Close()
	if err != nil {
		return nil, err
	}
	dir := filepath.Join(tmp, "n")
	n := node.New(node.Options{DataDir: dir})
	n.Chain.VerifSetPushFailSleep(1)
	ep := &endpoint{subs: map[string]*subState{}}
	ep.chain = func(name string) int64 { v, _ := n.Chain.ProcGetLastPushSeq(name); return v }
	srv := httptest.NewServer(ep)
	defer srv.Close()
	// deliver part of the trunk first so that explicit resume points exist
	order := r.Perm(len(tree.Blocks) - tree.Spec.Trunk)
	deliver := func(i int) { n.Deliver(tree.Block(i), true, "p") }
	for i := 0; i < 6; i++ {
		deliver(i)
	}
	nsubs := r.Range(2, 4)
	var names []string
	for k := 0; k < nsubs; k++ {
		s := &subState{name: fmt.Sprintf("sub%d", k), ty: int32(r.Intn(2)), lastAck: -1}
		// failure script: runs of failures (1..4: >=3 deactivates) between acknowledgements
		for len(s.script) < 30 {
			for a := 0; a < r.Range(1, 5); a++ {
				s.script = append(s.script, true)
			}
			if r.Chance(60) {
				for f := 0; f < r.Range(1, 4); f++ {
					s.script = append(s.script, false)
				}
			}
		}
		req := &types.PushSubscribeReq{Name: s.name, URL: srv.URL + "/" + s.name, Encode: "proto", Type: s.ty}
		if r.Chance(60) {
			seq := int64(r.Range(1, 5))
			it, err := n.Chain.GetStore().GetBlockSequence(seq)
			if err == nil {
				hdr, _ := n.Chain.GetStore().GetBlockHeaderByHash(it.Hash)
				req.LastSequence, req.LastBlockHash, req.LastHeight = seq, fmt.Sprintf("%x", it.Hash), hdr.Height
				s.start = seq
			}
		}
		ep.mu.Lock()
		ep.subs[s.name] = s
		ep.mu.Unlock()
		if _, err := n.API.AddPushSubscribe(req); err != nil {
			return nil, fmt.Errorf("subscribe %s: %v", s.name, err)
		}
		names = append(names, s.name)
	}
	react := map[string]int{}
	reactivate := func() {
		// a deactivated subscriber (3 consecutive failures) registers again with the same name/url/type
		l, err := n.Chain.ProcListPush()
		if err != nil {
			return
		}
		for _, p := range l.Pushes {
			_ = p
		}
		for _, name := range names {
			ep.mu.Lock()
			s := ep.subs[name]
			ep.mu.Unlock()
			req := &types.PushSubscribeReq{Name: s.name, URL: srv.URL + "/" + s.name, Encode: "proto", Type: s.ty}
			if _, err := n.API.AddPushSubscribe(req); err == nil {
				react[name]++
			}
		}
	}
	for i := 6; i < tree.Spec.Trunk; i++ {
		deliver(i)
		time.Sleep(time.Duration(r.Intn(120)) * time.Millisecond)
		if r.Chance(30) {
			reactivate()
		}
	}
	half := len(order) / 2
	for k, j := range order {
		deliver(tree.Spec.Trunk + j)
		time.Sleep(time.Duration(r.Intn(150)) * time.Millisecond)
		if r.Chance(30) {
			reactivate()
		}
		if q.Restart && k == half {
			// restart the node (push service resumes from the persisted sequence)
			n.Close()
			n = node.New(node.Options{DataDir: dir})
			n.Chain.VerifSetPushFailSleep(1)
			ep.chain = func(name string) int64 { v, _ := n.Chain.ProcGetLastPushSeq(name); return v }
		}
	}
	if q.Big {
		// large blocks while every subscriber is made to lag (its next two posts fail): the following batches span several
		// sequences and reach the push size cap (1 MB), so a batch is cut short and must be continued without a gap
		ep.mu.Lock()
		for _, s := range ep.subs {
			s.script = append(s.script[:s.pos:s.pos], false, false)
		}
		ep.mu.Unlock()
		for k := 0; k < 14; k++ {
			var txs []*types.Transaction
			for j := 0; j < 2; j++ {
				tx := &types.Transaction{Execer: []byte("none"), Payload: r.Bytes(90000), Nonce: int64(r.U64() >> 2), To: address.ExecAddress("none"), ChainID: n.Cfg.GetChainID()}
				tx.SetRealFee(n.Cfg.GetMinTxFeeRate())
				tx.Sign(types.SECP256K1, node.GenesisKey())
				txs = append(txs, tx)
			}
			if d, err := n.Build(n.LastBlock(), txs, 0x1f00ffff, 0); err == nil {
				n.Deliver(d.Block, true, "p")
			}
		}
	}
	// failures have stopped once scripts are exhausted: re-register everybody and wait (bounded) for catch-up
	last, _ := n.Chain.GetStore().LoadBlockLastSequence()
	deadline := time.Now().Add(150 * time.Second)
	extra := 0
	for time.Now().Before(deadline) {
		reactivate()
		// a retry is only triggered by a new sequence notification: keep the chain growing (bounded)
		if extra < 60 {
			if d, err := n.Build(n.LastBlock(), []*types.Transaction{util.CreateNoneTx(n.Cfg, node.GenesisKey())}, 0x1f00ffff, 0); err == nil {
				if n.Deliver(d.Block, true, "p") == nil {
					extra++
				}
			}
			last, _ = n.Chain.GetStore().LoadBlockLastSequence()
		}
		done := true
		ep.mu.Lock()
		for _, s := range ep.subs {
			if s.lastAck < last {
				done = false
			}
		}
		ep.mu.Unlock()
		if done {
			break
		}
		time.Sleep(300 * time.Millisecond)
	}
	var out []subRes
	ep.mu.Lock()
	for _, name := range names {
		s := ep.subs[name]
		sr := subRes{Name: name, Type: s.ty, Posts: len(s.events), LastAck: s.lastAck, LastSeq: last, Problems: s.problems, Reactivations: react[name], Stalled: s.lastAck < last}
		for _, e := range s.events {
			if e.Acked {
				sr.Acked++
			} else {
				sr.Failed++
			}
		}
		if len(s.problems) > 0 {
			sr.Events = s.events
		}
		// final: recorded <= acknowledged
		if v, err := n.Chain.ProcGetLastPushSeq(name); err == nil && s.lastAck >= 0 && v > s.lastAck {
			sr.Problems = append(sr.Problems, fmt.Sprintf("final recorded last pushed sequence %d ahead of acknowledged %d", v, s.lastAck))
		}
		out = append(out, sr)
	}
	ep.mu.Unlock()
	n.Close()
	return out, nil
}

func init() {
	lib.RegisterChild("hist", func(in []byte) (any, error) {
		var q histReq
		if err := json.Unmarshal(in, &q); err != nil {
			return nil, err
		}
		return runHistory(q)
	})
}

func c32Timeout() time.Duration {
	if v := os.Getenv("VERIF_C32_TIMEOUT_S"); v != "" {
		var n int
		fmt.Sscanf(v, "%d", &n)
		if n > 0 {
			return time.Duration(n) * time.Second
		}
	}
	return 12 * time.Minute
}

func run(c *lib.Ctx) {
	c.Rule("a real node grows and reorganises along a generated block tree while 2-4 push subscribers (block and header type, with and without an explicit resume point) are served by a loopback HTTP endpoint that follows a generated acknowledge/fail script " +
		"(runs of 1-3 failures; 3 consecutive failures deactivate the subscriber, which then registers again); the endpoint itself is the online monitor: every post must start at last-acknowledged+1 (or at the requested resume point+1), be internally consecutive, " +
		"and the node's recorded last-pushed sequence (ProcGetLastPushSeq, read at every post) must never be ahead of what was acknowledged; half of the histories restart the node mid-way; two thirds add 14 blocks of ~180 KB while the subscribers lag, so that batches hit the 1 MB push size cap and are cut short. " +
		"Bounded progress after failures stop is measured, not decided (stalls are reported as inconclusive). non-trivial = subscriber that saw >=1 failed post and >=2 acknowledged posts; distinct = (history, subscriber)")
	c.Assume("retry tick shortened from 60 to 1 one-second ticks through a build-tagged setter; retry logic unchanged", "tx-receipt and EVM-event subscriptions (which legitimately skip sequences without matching transactions) are not exercised")
	n := c.N(6, 120)
	lib.Parallel(n, 6, func(i int) {
		if c.Skip(i) {
			return
		}
		seed := c.CaseRng("hist", i).U64()
		cr := c.Child("hist", histReq{Seed: seed, Restart: i%2 == 1, Big: i%3 != 2}, lib.ChildOpts{Timeout: c32Timeout()})
		if cr.TimedOut {
			if d := os.Getenv("VERIF_DEBUG_DIR"); d != "" {
				os.WriteFile(filepath.Join(d, fmt.Sprintf("c32-watchdog-%d.txt", i)), []byte(cr.Stderr), 0o644)
			}
			c.Inconclusive("history %d: watchdog", i)
			return
		}
		if cr.Died {
			c.Violation(i, "node-died", map[string]any{"seed": seed, "stderr": cr.Stderr}, "history %d: node process died: %.500s", i, cr.Stderr)
			return
		}
		var rs []subRes
		if err := json.Unmarshal(cr.Out, &rs); err != nil {
			c.Inconclusive("history %d: %v", i, err)
			return
		}
		for _, s := range rs {
			c.Case(fmt.Sprintf("%d/%s", i, s.Name), s.Failed >= 1 && s.Acked >= 2, map[string]any{"history": i, "subscriber": s.Name, "type": s.Type, "posts": s.Posts, "failed_posts": s.Failed, "acked_posts": s.Acked, "last_ack": s.LastAck, "chain_last_seq": s.LastSeq, "reactivations": s.Reactivations})
			c.Count("posts_observed", int64(s.Posts))
			c.Count("failed_posts", int64(s.Failed))
			c.Count("acknowledged_posts", int64(s.Acked))
			c.Count("reactivations", int64(s.Reactivations))
			if s.Stalled {
				c.Count("subscribers_not_caught_up_within_bound", 1)
			}
			if len(s.Problems) > 0 {
				c.Violation(i, "order-or-gap", map[string]any{"seed": seed, "subscriber": s}, "history %d subscriber %s: %s", i, s.Name, lib.ShortList(s.Problems, 3))
			}
		}
	})
	if c.Counter("subscribers_not_caught_up_within_bound") > 0 {
		c.Inconclusive("%d subscriber(s) did not catch up within 150 s after failures stopped (bounded-progress restatement)", c.Counter("subscribers_not_caught_up_within_bound"))
	}
	c.RequireEvents("acknowledged_posts", 50)
	c.RequireEvents("failed_posts", 10)
}

func main() { lib.Main("C32", "exploration", run) }
