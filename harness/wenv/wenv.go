// Package wenv assembles the REAL wallet module on a real queue with small scripted responders for the
// modules the wallet talks to (blockchain, store, mempool, exec, consensus). Used by C37 and C38.
package wenv

import (
	"encoding/hex"
	"fmt"
	"path/filepath"
	"sync"

	"github.com/33cn/chain33/client"
	"github.com/33cn/chain33/common/address"
	"github.com/33cn/chain33/queue"
	_ "github.com/33cn/chain33/system" // crypto + address drivers, coins
	"github.com/33cn/chain33/types"
	"github.com/33cn/chain33/wallet"
	bip39 "github.com/33cn/chain33/wallet/bipwallet/go-bip39"
)

// Mnemonic returns the valid 15-word mnemonic of 20 bytes of entropy (lang 0 english, 1 chinese).
func Mnemonic(entropy []byte, lang int32) string {
	m, err := bip39.NewMnemonic(entropy[:20], lang)
	if err != nil {
		panic(err)
	}
	return m
}

type Env struct {
	Cfg  *types.Chain33Config
	Q    queue.Queue
	W    *wallet.Wallet
	API  client.QueueProtocolAPI
	mods []queue.Client
	wg   sync.WaitGroup
}

var logOnce sync.Once

// NewConfig returns the default chain33 configuration with the wallet database under dir.
func NewConfig(dir string) *types.Chain33Config {
	logOnce.Do(func() {
		queue.DisableLog()
		wallet.SetLogLevel("crit")
		wallet.DisableLog()
	})
	cfg := types.NewChain33Config(types.GetDefaultCfgstring())
	cfg.GetModuleConfig().Wallet.DbPath = filepath.Join(dir, "wallet")
	cfg.GetModuleConfig().Wallet.Driver = "leveldb"
	return cfg
}

// Start brings up a wallet incarnation on a fresh queue (a closed "wallet" topic can never be re-subscribed).
func Start(cfg *types.Chain33Config) *Env {
	e := &Env{Cfg: cfg}
	e.Q = queue.New("wenv")
	e.Q.SetConfig(cfg)
	e.responder("blockchain", func(cl queue.Client, msg *queue.Message) {
		switch msg.Ty {
		case types.EventGetLastHeader:
			msg.Reply(cl.NewMessage("", types.EventHeader, &types.Header{Height: 1}))
		case types.EventGetBlockHeight:
			msg.Reply(cl.NewMessage("", types.EventReplyBlockHeight, &types.ReplyBlockHeight{Height: 1}))
		case types.EventIsSync:
			msg.Reply(cl.NewMessage("", types.EventReplyIsSync, &types.IsCaughtUp{Iscaughtup: true}))
		default:
			msg.Reply(cl.NewMessage("", types.EventReply, types.ErrNotFound))
		}
	})
	e.responder("store", func(cl queue.Client, msg *queue.Message) {
		if msg.Ty == types.EventStoreGet {
			req := msg.Data.(*types.StoreGet)
			msg.Reply(cl.NewMessage("", types.EventStoreGetReply, &types.StoreReplyValue{Values: make([][]byte, len(req.Keys))}))
			return
		}
		msg.Reply(cl.NewMessage("", types.EventReply, types.ErrNotSupport))
	})
	e.responder("mempool", func(cl queue.Client, msg *queue.Message) {
		switch msg.Ty {
		case types.EventGetProperFee:
			msg.Reply(cl.NewMessage("", types.EventReply, &types.ReplyProperFee{ProperFee: 100000}))
		case types.EventTx:
			msg.Reply(cl.NewMessage("", types.EventReply, &types.Reply{IsOk: true}))
		default:
			msg.Reply(cl.NewMessage("", types.EventReply, types.ErrNotSupport))
		}
	})
	for _, t := range []string{"exec", "consensus"} {
		e.responder(t, func(cl queue.Client, msg *queue.Message) {
			msg.Reply(cl.NewMessage("", types.EventReplyQuery, types.ErrActionNotSupport))
		})
	}
	e.W = wallet.New(cfg)
	e.W.SetQueueClient(e.Q.Client())
	api, err := client.New(e.Q.Client(), nil)
	if err != nil {
		panic(err)
	}
	e.API = api
	return e
}

func (e *Env) responder(topic string, h func(cl queue.Client, msg *queue.Message)) {
	cl := e.Q.Client()
	cl.Sub(topic)
	e.mods = append(e.mods, cl)
	e.wg.Add(1)
	go func() {
		defer e.wg.Done()
		for msg := range cl.Recv() {
			h(cl, msg)
		}
	}()
}

// Stop closes the wallet (database included) and the queue.
func (e *Env) Stop() {
	e.W.Close()
	for _, cl := range e.mods {
		cl.Close()
	}
	e.Q.Close()
	e.wg.Wait()
}

// UnsignedTx returns the hex of an unsigned coins transfer usable with ProcSignRawTx.
func UnsignedTx(to string, nonce int64) string {
	tx := &types.Transaction{Execer: []byte("coins"), Payload: []byte(fmt.Sprintf("verif-%d", nonce)), Fee: 1000000, Nonce: nonce, To: to}
	return hex.EncodeToString(types.Encode(tx))
}

// ExecAddr is a syntactically valid destination address.
func ExecAddr() string { return address.ExecAddress("coins") }
