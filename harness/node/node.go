// Package node assembles an in-process chain33 node from the real modules (queue, crypto client,
// executor, mavl store, blockchain, solo consensus with mining off, mempool, stub p2p) with an
// explicit data directory, and offers a block builder that produces valid block trees without mining.
package node

import (
	"fmt"
	"os"
	"path/filepath"
	"strings"
	"sync"
	"time"

	"github.com/33cn/chain33/blockchain"
	"github.com/33cn/chain33/client"
	"github.com/33cn/chain33/common/address"
	"github.com/33cn/chain33/common/crypto"
	cryptocli "github.com/33cn/chain33/common/crypto/client"
	"github.com/33cn/chain33/common/limits"
	"github.com/33cn/chain33/common/log"
	"github.com/33cn/chain33/consensus"
	"github.com/33cn/chain33/executor"
	"github.com/33cn/chain33/mempool"
	"github.com/33cn/chain33/queue"
	"github.com/33cn/chain33/store"
	_ "github.com/33cn/chain33/system" // register all system plugins
	"github.com/33cn/chain33/types"
	"github.com/33cn/chain33/util"
)

func init() {
	_ = limits.SetLimits()
	lvl := os.Getenv("VERIF_LOG")
	if lvl == "" {
		lvl = "crit"
	}
	log.SetLogLevel(lvl)
}

// Options configure a node.
type Options struct {
	DataDir    string                       // required; created if absent; reused if present (restart)
	CfgString  func(s string) string        // optional rewrite of the default TOML
	Cfg        func(c *types.Config)        // optional mutation of the module config before modules start
	MinerStart bool                         // solo mining on (default off)
	NoMempool  bool                         // do not start the mempool module
	ChainCfg   func(c *types.Chain33Config) // after construction (forks etc.)
}

type Node struct {
	Cfg     *types.Chain33Config
	Q       queue.Queue
	Client  queue.Client
	API     client.QueueProtocolAPI
	Chain   *blockchain.BlockChain
	Exec    *executor.Executor
	Store   queue.Module
	Cons    queue.Module
	Mem     queue.Module
	crypto  queue.Module
	p2p     *StubP2P
	DataDir string
	closed  bool
}

var cfgMu sync.Mutex

// NewConfig builds a Chain33Config from the default config string with the given rewrites.
func NewConfig(o Options) *types.Chain33Config {
	s := types.GetDefaultCfgstring()
	if !o.MinerStart {
		s = strings.Replace(s, "minerstart=true", "minerstart=false", 1)
	}
	if o.CfgString != nil {
		s = o.CfgString(s)
	}
	cfgMu.Lock()
	defer cfgMu.Unlock()
	cfg := types.NewChain33Config(s)
	return cfg
}

// New starts a node.
func New(o Options) *Node {
	cfg := NewConfig(o)
	return NewWithConfig(cfg, o)
}

func NewWithConfig(cfg *types.Chain33Config, o Options) *Node {
	mfg := cfg.GetModuleConfig()
	if o.DataDir == "" {
		panic("node: DataDir required")
	}
	os.MkdirAll(o.DataDir, 0o755)
	mfg.Log.LogFile = filepath.Join(o.DataDir, "logs/chain33.log")
	mfg.BlockChain.DbPath = filepath.Join(o.DataDir, "datadir")
	mfg.P2P.DbPath = filepath.Join(o.DataDir, "datadir/addrbook")
	mfg.Wallet.DbPath = filepath.Join(o.DataDir, "wallet")
	mfg.Store.DbPath = filepath.Join(o.DataDir, "datadir/mavltree")
	if o.Cfg != nil {
		o.Cfg(mfg)
	}
	if o.ChainCfg != nil {
		o.ChainCfg(cfg)
	}
	q := queue.New("channel")
	q.SetConfig(cfg)
	types.Debug = false
	n := &Node{Cfg: cfg, Q: q, DataDir: o.DataDir}
	address.Init(mfg.Address)
	n.crypto = cryptocli.New()
	n.crypto.SetQueueClient(q.Client())
	n.Exec = executor.New(cfg)
	n.Exec.SetQueueClient(q.Client())
	n.Store = store.New(cfg)
	n.Store.SetQueueClient(q.Client())
	n.Chain = blockchain.New(cfg)
	n.Chain.SetQueueClient(q.Client())
	n.Cons = consensus.New(cfg)
	n.Cons.SetQueueClient(q.Client())
	if !o.NoMempool {
		n.Mem = mempool.New(cfg)
		n.Mem.SetQueueClient(q.Client())
		n.Mem.Wait()
	}
	n.p2p = &StubP2P{}
	n.p2p.SetQueueClient(q.Client())
	// no wallet module in this node: drain its topic (the blockchain module notifies it of every block with a
	// blocking send; an unconsumed topic would fill up after 64 blocks)
	go func(c queue.Client) {
		c.Sub("wallet")
		for msg := range c.Recv() {
			c.FreeMessage(msg)
		}
	}(q.Client())
	n.Client = q.Client()
	api, err := client.New(q.Client(), nil)
	if err != nil {
		panic(err)
	}
	n.API = api
	// wait for genesis
	for i := 0; i < 2000; i++ {
		if n.Chain.GetBlockHeight() >= 0 {
			if _, err := n.Chain.GetBlock(0); err == nil {
				break
			}
		}
		time.Sleep(5 * time.Millisecond)
	}
	return n
}

// Close stops all modules (data directory is kept).
func (n *Node) Close() {
	if n.closed {
		return
	}
	n.closed = true
	n.crypto.Close()
	if n.Mem != nil {
		n.Mem.Close()
	}
	n.Exec.Close()
	n.Cons.Close()
	n.Chain.Close()
	n.Store.Close()
	n.Client.Close()
	n.Q.Close()
}

// StubP2P answers the p2p topic and records broadcasts.
type StubP2P struct {
	mu     sync.Mutex
	Blocks []*types.Block
	Events []int64
}

func (m *StubP2P) SetQueueClient(c queue.Client) {
	go func() {
		c.Sub("p2p")
		for msg := range c.Recv() {
			m.mu.Lock()
			m.Events = append(m.Events, msg.Ty)
			m.mu.Unlock()
			switch msg.Ty {
			case types.EventPeerInfo:
				msg.Reply(c.NewMessage("p2p", types.EventPeerList, &types.PeerList{}))
			case types.EventGetNetInfo:
				msg.Reply(c.NewMessage("p2p", types.EventPeerList, &types.NodeNetInfo{}))
			case types.EventTxBroadcast, types.EventBlockBroadcast, types.EventAddBlock:
				c.FreeMessage(msg)
			default:
				msg.ReplyErr("p2p->Do not support "+types.GetEventName(int(msg.Ty)), types.ErrNotSupport)
			}
		}
	}()
}

// GenesisKey is the private key owning the genesis coins of the default config.
func GenesisKey() crypto.PrivKey { return util.TestPrivkeyList[1] }

func GenesisAddr() string {
	return address.PubKeyToAddr(address.DefaultID, GenesisKey().PubKey().Bytes())
}

// LastBlock returns the tip block.
func (n *Node) LastBlock() *types.Block {
	b, err := n.Chain.GetBlock(n.Chain.GetBlockHeight())
	if err != nil {
		panic(err)
	}
	return b.Block
}

func (n *Node) Block(h int64) *types.BlockDetail {
	b, err := n.Chain.GetBlock(h)
	if err != nil {
		return nil
	}
	return b
}

// ---------------------------------------------------------------------------------------------
// builder

// Build assembles a child of parent carrying txs, executes it on this node's executor+store against the
// parent's state (content-addressed store keeps every branch) and returns the executed block. Transactions
// that fail with ExecErr are dropped exactly as a block producer would.
func (n *Node) Build(parent *types.Block, txs []*types.Transaction, difficulty uint32, blockTime int64) (*types.BlockDetail, error) {
	cfg := n.Cfg
	b := &types.Block{}
	b.Height = parent.Height + 1
	b.BlockTime = blockTime
	if blockTime == 0 {
		b.BlockTime = parent.BlockTime + 1
	}
	b.ParentHash = parent.Hash(cfg)
	b.Difficulty = difficulty
	b.Txs = append(b.Txs, txs...)
	if cfg.IsFork(b.Height, "ForkRootHash") {
		b.Txs = types.TransactionSort(b.Txs)
	}
	detail, _, err := util.ExecBlock(n.Client, parent.StateHash, b, false, false, false)
	if err != nil {
		return nil, fmt.Errorf("build h=%d: %w", b.Height, err)
	}
	return detail, nil
}

// Deliver feeds a block the way a peer would (broadcast or sync flavour). A deep copy is delivered.
func (n *Node) Deliver(b *types.Block, broadcast bool, pid string) error {
	cp := types.Clone(b).(*types.Block)
	_, err := n.Chain.ProcAddBlockMsg(broadcast, &types.BlockDetail{Block: cp}, pid)
	return err
}
